(* BuilderGraphLemmas.v — facts about the ghost store of BuilderInv.v: address ranges, stability of
   [elang] under extension, the node table the format specification builds from the store, and
   the agreement of GraphSem.lang over that table with [elang]. *)
Require Import FstV.Base FstV.Pack FstV.Node FstV.GraphSem FstV.Format FstV.CodecSpec FstV.proofs.BuilderInv.
Require Import Coq.FSets.FMapPositive Lia ZifyN ZifyBool ZifyNat.

(* ---------- basic facts about a well-formed store ---------- *)

Lemma store_top_ge E : store_ok E -> 15 <= top_addr E.
Proof.
  induction E as [|[a s] E IH]; cbn [store_ok top_addr]; intros H; [lia|].
  destruct H as (H1 & _ & H3 & _ & H5). specialize (IH H1). lia.
Qed.

Lemma store_addrs_range E a : store_ok E -> In a (addrs E) -> 16 <= a /\ a <= top_addr E.
Proof.
  induction E as [|[a' s] E IH]; cbn [store_ok top_addr addrs map In fst]; intros H Hin; [tauto|].
  destruct H as (H1 & _ & H3 & _ & H5).
  pose proof (store_top_ge E H1) as Hge.
  destruct Hin as [->|Hin]; [lia|].
  specialize (IH H1 Hin). lia.
Qed.

Lemma store_addrs_nodup E : store_ok E -> NoDup (addrs E).
Proof.
  induction E as [|[a s] E IH]; cbn [store_ok addrs map fst]; intros H; [constructor|].
  destruct H as (H1 & _ & H3 & _ & H5).
  constructor; [|apply IH; exact H1].
  intros Hin. apply (store_addrs_range E a H1) in Hin. lia.
Qed.

Lemma tgt_ok_cons E x a : tgt_ok E a -> tgt_ok (x :: E) a.
Proof. unfold tgt_ok, addrs. cbn [map In]. tauto. Qed.

Lemma trans_ok_cons E x t : trans_ok E t -> trans_ok (x :: E) t.
Proof. unfold trans_ok. intros (H1 & H2 & H3). auto using tgt_ok_cons. Qed.

Lemma node_ok_cons E x n : node_ok E n -> node_ok (x :: E) n.
Proof.
  unfold node_ok. intros (H1 & H2 & H3 & H4). repeat split; auto.
  eapply Forall_impl; [|exact H2]. intros t; apply trans_ok_cons.
Qed.

Lemma tgt_ok_lt E a : store_ok E -> tgt_ok E a -> a <= top_addr E.
Proof.
  intros H [->|Hin]; [lia|]. apply (store_addrs_range E a H) in Hin. lia.
Qed.

Lemma store_in_node_ok E a s : store_ok E -> In (a, s) E ->
  node_ok E (bn_of s) /\ Forall (fun t => t_addr t < a) (sn_trans s) /\ 16 <= a.
Proof.
  induction E as [|[a' s'] E IH]; cbn [store_ok In]; intros H Hin; [tauto|].
  destruct H as (H1 & H2 & H3 & H4 & H5).
  pose proof (store_top_ge E H1) as Hge.
  destruct Hin as [Heq|Hin].
  - inversion Heq; subst a' s'; clear Heq.
    split; [apply node_ok_cons; exact H2|]. split; [|lia].
    destruct H2 as (_ & HF & _). cbn [bn_of n_trans] in HF.
    eapply Forall_impl; [|exact HF]. intros t (_ & _ & Ht). cbn beta.
    pose proof (tgt_ok_lt E _ H1 Ht). lia.
  - destruct (IH H1 Hin) as (I1 & I2 & I3). split; [apply node_ok_cons; exact I1|]. auto.
Qed.

Lemma store_in_addrs E a s : In (a, s) E -> In a (addrs E).
Proof. intros H. unfold addrs. apply in_map_iff. exists (a, s). auto. Qed.

Lemma store_addrs_in E a : In a (addrs E) -> exists s, In (a, s) E.
Proof.
  unfold addrs. intros H. apply in_map_iff in H. destruct H as ([a' s] & H1 & H2).
  cbn in H1. subst a'. eauto.
Qed.

Lemma store_in_unique E a s s' : store_ok E -> In (a, s) E -> In (a, s') E -> s = s'.
Proof.
  induction E as [|[a' s0] E IH]; cbn [store_ok In]; intros H Hin Hin'; [tauto|].
  destruct H as (H1 & H2 & H3 & H4 & H5).
  pose proof (store_top_ge E H1) as Hge.
  assert (Hlt : forall s1, In (a', s1) E -> False).
  { intros s1 Hs1. apply store_in_addrs in Hs1. apply (store_addrs_range E a' H1) in Hs1. lia. }
  destruct Hin as [Heq|Hin], Hin' as [Heq'|Hin'].
  - congruence.
  - inversion Heq; subst. exfalso; eauto.
  - inversion Heq'; subst. exfalso; eauto.
  - eauto.
Qed.

(* ---------- stability of the language ---------- *)

Lemma elang_zero E : elang E 0 = [([], 0)].
Proof. destruct E as [|[a s] E]; reflexivity. Qed.

Lemma elang_cons E x a : store_ok (x :: E) -> tgt_ok E a -> elang (x :: E) a = elang E a.
Proof.
  destruct x as [a' s]. intros H Ht.
  cbn [store_ok] in H. destruct H as (H1 & H2 & H3 & H4 & H5).
  pose proof (tgt_ok_lt E a H1 Ht) as Hle.
  cbn [elang].
  destruct (a =? 0) eqn:E0.
  - assert (a = 0) by lia. subst a. symmetry; apply elang_zero.
  - destruct (a =? a') eqn:E1; [lia|reflexivity].
Qed.

Lemma flat_map_ext_in' {A B} (f g : A -> list B) l :
  (forall x, In x l -> f x = g x) -> flat_map f l = flat_map g l.
Proof.
  induction l as [|x l IH]; cbn [flat_map]; intros H; [reflexivity|].
  rewrite (H x (or_introl eq_refl)), IH; [reflexivity|]. intros y Hy; apply H; right; exact Hy.
Qed.

Lemma lang_node_ext cl cl' n :
  (forall t, In t (n_trans n) -> cl (t_addr t) = cl' (t_addr t)) -> lang_node cl n = lang_node cl' n.
Proof.
  intros H. unfold lang_node. f_equal. apply flat_map_ext_in'.
  intros t Ht. now rewrite (H t Ht).
Qed.

Lemma lang_node_cons E x n : store_ok (x :: E) -> node_ok E n ->
  lang_node (elang (x :: E)) n = lang_node (elang E) n.
Proof.
  intros H (_ & HF & _). apply lang_node_ext. intros t Ht.
  rewrite Forall_forall in HF. destruct (HF t Ht) as (_ & _ & Htg).
  apply elang_cons; assumption.
Qed.

Lemma elang_unfold a' s' E a :
  elang ((a', s') :: E) a =
    if a =? 0 then [([], 0)] else if a =? a' then lang_node (elang E) (bn_of s') else elang E a.
Proof. reflexivity. Qed.

Lemma elang_in E a s : store_ok E -> In (a, s) E -> elang E a = lang_node (elang E) (bn_of s).
Proof.
  induction E as [|[a' s'] E IH]; intros H Hin; [destruct Hin|].
  pose proof H as H0.
  cbn [store_ok] in H. destruct H as (H1 & H2 & H3 & H4 & H5).
  pose proof (store_top_ge E H1) as Hge.
  destruct (store_in_node_ok _ a s H0 Hin) as (_ & _ & Ha16).
  etransitivity; [apply elang_unfold|].
  destruct (a =? 0) eqn:E0; [lia|].
  destruct Hin as [Heq|Hin].
  - assert (Ea : a' = a) by congruence. assert (s' = s) by congruence. subst s'.
    destruct (a =? a') eqn:E1; [|lia].
    symmetry. apply (lang_node_cons E (a', s)); assumption.
  - pose proof (store_in_addrs _ _ _ Hin) as Hia.
    apply (store_addrs_range E a H1) in Hia.
    destruct (a =? a') eqn:E1; [lia|].
    rewrite (IH H1 Hin). symmetry. apply (lang_node_cons E (a', s')); [assumption|].
    apply (store_in_node_ok E a s H1 Hin).
Qed.

(* ---------- the node table ---------- *)

Lemma succ_pos_inj a b : N.succ_pos a = N.succ_pos b -> a = b.
Proof.
  intros H. pose proof (N.succ_pos_spec a) as Ha. pose proof (N.succ_pos_spec b) as Hb.
  rewrite H in Ha. rewrite Ha in Hb. lia.
Qed.

Lemma node_table_rev_cons x E :
  node_table (rev (x :: E)) = PositiveMap.add (N.succ_pos (fst x)) (snd x) (node_table (rev E)).
Proof. unfold node_table. cbn [rev]. rewrite fold_left_app. reflexivity. Qed.

Lemma node_table_find_gen E a :
  PositiveMap.find (N.succ_pos a) (node_table (rev E)) =
    match find (fun x => fst x =? a) E with Some x => Some (snd x) | None => None end.
Proof.
  induction E as [|x E IH].
  - cbn. apply PositiveMap.gempty.
  - rewrite node_table_rev_cons. cbn [find].
    destruct (fst x =? a) eqn:E1.
    + assert (fst x = a) by lia. subst a. apply PositiveMap.gss.
    + rewrite PositiveMap.gso; [exact IH|].
      intros Hs. apply succ_pos_inj in Hs. lia.
Qed.

Lemma node_table_find E a : store_ok E ->
  PositiveMap.find (N.succ_pos a) (node_table (rev E)) =
    match find (fun x => fst x =? a) E with Some x => Some (snd x) | None => None end.
Proof. intros _. apply node_table_find_gen. Qed.

Lemma node_table_find_in E a s : store_ok E -> In (a, s) E ->
  PositiveMap.find (N.succ_pos a) (node_table (rev E)) = Some s.
Proof.
  intros H Hin. rewrite node_table_find_gen.
  destruct (find (fun x => fst x =? a) E) as [[a' s']|] eqn:Ef.
  - apply find_some in Ef. destruct Ef as (Hin' & Heq). cbn [fst] in Heq.
    assert (a' = a) by lia. subst a'. cbn [snd]. f_equal.
    eapply store_in_unique; eauto.
  - pose proof (find_none _ _ Ef _ Hin) as Hf. cbn [fst] in Hf. lia.
Qed.

Lemma tbl_get_in E a s : store_ok E -> In (a, s) E -> tbl_get (node_table (rev E)) a = Some s.
Proof.
  intros H Hin. unfold tbl_get.
  destruct (store_in_node_ok E a s H Hin) as (_ & _ & Ha).
  destruct (a =? 0) eqn:E0; [lia|]. apply node_table_find_in; assumption.
Qed.

Lemma tbl_get_tgt E a : store_ok E -> tgt_ok E a -> exists s, tbl_get (node_table (rev E)) a = Some s.
Proof.
  intros H [->|Hin].
  - exists empty_final. reflexivity.
  - apply store_addrs_in in Hin. destruct Hin as (s & Hin). exists s. apply tbl_get_in; assumption.
Qed.

Lemma store_targets_closed E : store_ok E ->
  forallb (fun x => forallb (fun t => match tbl_get (node_table (rev E)) (t_addr t) with Some _ => true | None => false end)
                            (sn_trans (snd x))) (rev E) = true.
Proof.
  intros H. apply forallb_forall. intros [a s] Hin. apply in_rev in Hin.
  cbn [snd]. apply forallb_forall. intros t Ht.
  destruct (store_in_node_ok E a s H Hin) as ((_ & HF & _) & _ & _).
  cbn [bn_of n_trans] in HF. rewrite Forall_forall in HF.
  destruct (HF t Ht) as (_ & _ & Htg).
  destruct (tbl_get_tgt E _ H Htg) as (s' & ->). reflexivity.
Qed.

(* ---------- GraphSem.lang over the table ---------- *)

Lemma gget_store_in E a s : store_ok E -> In (a, s) E ->
  gget (graph_of (node_table (rev E))) a = Some (gnode_of s).
Proof.
  intros H Hin. unfold gget, graph_of.
  destruct (store_in_node_ok E a s H Hin) as (_ & _ & Ha).
  destruct (a =? 0) eqn:E0; [lia|]. rewrite (node_table_find_in E a s H Hin). reflexivity.
Qed.

(* one step of [lang], when every sub-walk succeeds with the language [cl] *)
Lemma lang_step_subs (g : graph) (f : nat) (cl : N -> kmap) (ts : list trans) :
  (forall t, In t ts -> lang g f (t_addr t) = Some (cl (t_addr t))) ->
  let subs := map (fun t => match lang g f (t_addr t) with
                            | Some l => Some (map (fun kv => (t_inp t :: fst kv, t_out t + snd kv)) l)
                            | None => None end) ts in
  forallb (fun o : option kmap => match o with Some _ => true | None => false end) subs = true /\
  concat (map (fun o : option kmap => match o with Some l => l | None => [] end) subs) =
    flat_map (fun t => map (cons_tr (t_inp t) (t_out t)) (cl (t_addr t))) ts.
Proof.
  induction ts as [|t ts IH]; intros H; cbn [map forallb concat flat_map]; [split; reflexivity|].
  destruct IH as (I1 & I2); [intros t' Ht'; apply H; right; exact Ht'|].
  rewrite (H t (or_introl eq_refl)). cbn zeta in I1, I2. rewrite I1, I2. split; reflexivity.
Qed.

Theorem lang_store E : store_ok E -> forall fuel a, tgt_ok E a -> (N.to_nat a < fuel)%nat ->
  lang (graph_of (node_table (rev E))) fuel a = Some (elang E a).
Proof.
  intros H. induction fuel as [|f IH]; intros a Ht Hf; [lia|].
  cbn [lang].
  destruct Ht as [->|Hin].
  - rewrite elang_zero. reflexivity.
  - apply store_addrs_in in Hin. destruct Hin as (s & Hin).
    rewrite (gget_store_in E a s H Hin).
    destruct (store_in_node_ok E a s H Hin) as ((_ & HF & _) & Hlt & Ha).
    cbn [bn_of n_trans] in HF. rewrite Forall_forall in HF, Hlt.
    cbn [gnode_of g_trans g_final g_fout].
    destruct (lang_step_subs (graph_of (node_table (rev E))) f (elang E) (sn_trans s)) as (S1 & S2).
    { intros t Ht. apply IH.
      - apply (HF t Ht).
      - specialize (Hlt t Ht). cbn beta in Hlt. lia. }
    cbn zeta in S1, S2. unfold kmap, kv, key in *. rewrite S1, S2.
    rewrite (elang_in E a s H Hin). reflexivity.
Qed.

Print Assumptions lang_store.
