(* BuilderBytesLemmas.v — byte-level facts used by the builder correctness proof:
   little-endian packing round trips, chunk lengths, and the size bound of a node accepted
   by the format specification. *)
Require Import FstV.Base FstV.Pack FstV.Node FstV.Builder FstV.GraphSem FstV.Format FstV.CodecSpec FstV.proofs.BuilderInv.
Require Import Lia ZifyN ZifyBool ZifyNat.
Require Import ZArith.
Open Scope N_scope.

Ltac Zify.zify_post_hook ::= Z.div_mod_to_equations.

(* ---------- little-endian packing ---------- *)
Lemma le_bytes_length n k : length (le_bytes n k) = k.
Proof. revert n; induction k as [|k IH]; intros n; cbn [le_bytes length]; [reflexivity|]. now rewrite IH. Qed.

Lemma le_value_le_bytes k n : n < 256 ^ N.of_nat k -> le_value (le_bytes n k) = n.
Proof.
  revert n; induction k as [|k IH]; intros n H.
  - change (256 ^ N.of_nat 0) with 1 in H. cbn [le_bytes le_value]. lia.
  - rewrite Nat2N.inj_succ, N.pow_succ_r' in H.
    cbn [le_bytes le_value]. rewrite IH.
    + lia.
    + remember (256 ^ N.of_nat k) as p. lia.
Qed.

Lemma le_value_u64 n : n < U64 -> le_value (u64_le n) = n.
Proof. intros H. unfold u64_le. apply le_value_le_bytes. exact H. Qed.

Lemma le_value_u32 n : n < 4294967296 -> le_value (u32_le n) = n.
Proof. intros H. unfold u32_le. apply le_value_le_bytes. exact H. Qed.

(* ---------- lengths ---------- *)
Lemma len_app {A} (a b : list A) : len (a ++ b) = len a + len b.
Proof. unfold len. rewrite app_length. lia. Qed.

Lemma chunks_len_acc (cs : list (list N)) : forall a, fold_left (fun a c => a + len c) cs a = a + len (concat cs).
Proof.
  induction cs as [|c cs IH]; intros a; cbn [fold_left concat].
  - unfold len; cbn [length]. lia.
  - rewrite IH, len_app. lia.
Qed.

Lemma chunks_len_concat cs : chunks_len cs = len (concat cs).
Proof. unfold chunks_len. rewrite chunks_len_acc. lia. Qed.

(* ---------- increasing inputs ---------- *)
Lemma inputs_increasing_strict ts : inputs_increasing ts = strictly_increasing (map t_inp ts).
Proof.
  induction ts as [|a ts IH]; [reflexivity|].
  destruct ts as [|b r]; [reflexivity|].
  cbn [inputs_increasing map strictly_increasing] in *. now rewrite IH.
Qed.

Lemma increasing_length_gen ts :
  inputs_increasing ts = true -> Forall (fun t => t_inp t < 256) ts ->
  match ts with [] => True | a :: _ => N.of_nat (length ts) <= 256 - t_inp a end.
Proof.
  induction ts as [|a ts IH]; intros Hi Hf; [exact I|].
  inversion Hf as [|? ? Ha Hr]; subst.
  destruct ts as [|b r].
  - cbn [length]. lia.
  - cbn [inputs_increasing] in Hi. apply andb_true_iff in Hi. destruct Hi as [Hab Hi].
    specialize (IH Hi Hr). cbn [length] in *. lia.
Qed.

Lemma increasing_length ts :
  inputs_increasing ts = true -> Forall (fun t => t_inp t < 256) ts -> (length ts <= 256)%nat.
Proof.
  intros Hi Hf. pose proof (increasing_length_gen ts Hi Hf) as H.
  destruct ts as [|a r]; [cbn; lia|]. lia.
Qed.

(* ---------- take_n / take_nums ---------- *)
Lemma take_n_length {A} k : forall (l a b : list A), take_n k l = Some (a, b) -> length a = k.
Proof.
  induction k as [|k IH]; intros l a b H; cbn [take_n] in H.
  - inversion H; reflexivity.
  - destruct l as [|x r]; [discriminate|].
    destruct (take_n k r) as [[a' b']|] eqn:E; [|discriminate].
    inversion H; subst. cbn [length]. f_equal. eapply IH; eauto.
Qed.

Lemma take_nums_length n k : forall (l a b : list N), take_nums n k l = Some (a, b) -> length a = n.
Proof.
  induction n as [|n IH]; intros l a b H; cbn [take_nums] in H.
  - inversion H; reflexivity.
  - destruct (take_be k l 0) as [[x r]|]; [|discriminate].
    destruct (take_nums n k r) as [[a' b']|] eqn:E; [|discriminate].
    inversion H; subst. cbn [length]. f_equal. eapply IH; eauto.
Qed.

(* ---------- the size of a node accepted by the format specification ---------- *)
Local Ltac dif H := match type of H with context [if ?c then _ else _] => destruct c eqn:? end.

Lemma spec_node_size v rv a s : spec_node v rv a = Some s -> (length (sn_trans s) <= 256)%nat ->
  0 < sn_size s /\ sn_size s <= NODE_MAX.
Proof.
  intros H HL. unfold NODE_MAX. unfold spec_node in H.
  destruct rv as [|s0 r0]; [discriminate|].
  destruct (192 <=? s0) eqn:E1.
  - 
    assert (exists inp size, (size = 1 \/ size = 2) /\
              (if size <=? a then Some (mkSnode false 0 [mkTrans inp 0 (a - size)] size) else None) = Some s)
      as (inp & size & Hs & H').
    { destruct (s0 mod 64 =? 0).
      - destruct r0 as [|b r]; [discriminate|]. exists b, 2. auto.
      - destruct (common_of (s0 mod 64)) as [b|]; [|discriminate]. exists b, 1. auto. }
    clear H. destruct (size <=? a); [|discriminate]. inversion H'; subst s. cbn [sn_size]. lia.
  - destruct (128 <=? s0) eqn:E2.
    + 
      match type of H with match ?c with _ => _ end = _ => destruct c as [[[inp r1] used]|] eqn:EU end; [|discriminate].
      assert (used = 1 \/ used = 2) as Hu.
      { destruct (s0 mod 64 =? 0).
        - destruct r0; [discriminate|]. inversion EU; auto.
        - destruct (common_of (s0 mod 64)); [|discriminate]. inversion EU; auto. }
      clear EU. destruct r1 as [|sizes r2]; [discriminate|].
      dif H; [discriminate|].
      destruct (take_be (N.to_nat (sizes / 16)) r2 0) as [[delta r3]|]; [|discriminate].
      destruct (take_be (N.to_nat (sizes mod 16)) r3 0) as [[out r4]|]; [|discriminate].
      dif H; [discriminate|].
      match type of H with match ?c with _ => _ end = _ => destruct c as [tgt|] end; [|discriminate].
      inversion H; subst s. cbn [sn_size]. 
      clear H HL. generalize dependent (sizes / 16). generalize dependent (sizes mod 16). intros. lia.
    + match type of H with match ?c with _ => _ end = _ => destruct c as [[[ntrans r1] used]|] eqn:EU end; [|discriminate].
      assert (used = 1 \/ used = 2) as Hu.
      { destruct (s0 mod 64 =? 0).
        - destruct r0; [discriminate|]. inversion EU; auto.
        - inversion EU; auto. }
      clear EU. destruct r1 as [|sizes r2]; [discriminate|].
      dif H; [discriminate|].
      match type of H with match ?c with _ => _ end = _ => destruct c as [[index_rev r3]|] end; [|discriminate].
      destruct (take_n (N.to_nat ntrans) r3) as [[inputs r4]|] eqn:Ein; [|discriminate].
      destruct (take_nums (N.to_nat ntrans) (N.to_nat (sizes / 16)) r4) as [[deltas r5]|] eqn:Ede; [|discriminate].
      destruct (take_nums (N.to_nat ntrans) (N.to_nat (sizes mod 16)) r5) as [[outs r6]|] eqn:Eou; [|discriminate].
      match type of H with match ?c with _ => _ end = _ => destruct c as [[fout r7]|] end; [|discriminate].
      dif H; [discriminate|].
      dif H; [|discriminate].
      dif H; [|discriminate].
      inversion H; subst s. cbn [sn_size sn_trans] in *.
      rewrite map_length, !combine_length, map_length in HL.
      apply take_n_length in Ein. apply take_nums_length in Ede. apply take_nums_length in Eou.
      rewrite Ein, Ede, Eou in HL.
      clear H.
      clear Heqb1 Heqb2 Heqb0.
      rewrite !Nat.min_id in HL. assert (ntrans <= 256) as Hn by lia. clear HL.
      generalize dependent (sizes / 16). generalize dependent (sizes mod 16). intros os ts Hg.
      assert (ts <= 8 /\ os <= 8) as [Ht Ho] by lia. clear Hg.
      assert (ntrans * ts <= 256 * 8) by (apply N.mul_le_mono; assumption).
      assert (ntrans * os <= 256 * 8) by (apply N.mul_le_mono; assumption).
      destruct ((2 <=? v) && (FMT_INDEX_THRESHOLD <? ntrans)); destruct (64 <=? s0); lia.
Qed.

Print Assumptions spec_node_size.
