(* LevDfa.v — C17, Part 3a: the table-level operations of DfaBuilder
   (add_utf8_range, new_state, copy_next, add_utf8_seq) described by what they do to
   [get_next] and to walks. *)
Require Import FstV.Base FstV.Loop FstV.Automaton FstV.Levenshtein.
Require Import Lia.
Open Scope nat_scope.

(* ---------- lists ---------- *)
Lemma set_nth_length {A} (l : list A) : forall i x, length (set_nth l i x) = length l.
Proof. induction l as [|y l IH]; intros [|i] x; cbn; auto. Qed.

Lemma nth_error_set_nth {A} (l : list A) : forall i j x,
  nth_error (set_nth l i x) j = if Nat.eqb i j then (if i <? length l then Some x else None) else nth_error l j.
Proof.
  induction l as [|y l IH]; intros i j x.
  - destruct i, j; cbn; try reflexivity. now destruct (Nat.eqb i j).
  - destruct i as [|i], j as [|j]; cbn [set_nth nth_error Nat.eqb length]; try reflexivity.
    rewrite IH. destruct (Nat.eqb i j); [|reflexivity].
    change (S i <? S (length l)) with (i <? length l). reflexivity.
Qed.

Lemma nth_error_set_nth_eq {A} (l : list A) i x : i < length l -> nth_error (set_nth l i x) i = Some x.
Proof. intros H. rewrite nth_error_set_nth, Nat.eqb_refl. apply Nat.ltb_lt in H. now rewrite H. Qed.
Lemma nth_error_set_nth_neq {A} (l : list A) i j x : i <> j -> nth_error (set_nth l i x) j = nth_error l j.
Proof. intros H. rewrite nth_error_set_nth. apply Nat.eqb_neq in H. now rewrite H. Qed.

Lemma repeatN_length {A} (x : A) n : length (repeatN x n) = n.
Proof. induction n; cbn; auto. Qed.
Lemma nth_repeatN {A} (x : A) n i : nth i (repeatN x n) x = x.
Proof. revert i; induction n; intros [|i]; cbn; auto. Qed.

(* ---------- tables ---------- *)
Lemma tbl_fill_length ow to t : forall skip cnt, length (tbl_fill ow to skip cnt t) = length t.
Proof.
  induction t as [|e t IH]; intros skip cnt; [reflexivity|].
  cbn [tbl_fill]. destruct skip; [destruct cnt|]; cbn [length]; auto.
Qed.

Definition fill_entry (ow : bool) (to : nat) (e : option nat) : option nat :=
  if ow then Some to else match e with None => Some to | Some _ => e end.

Lemma tbl_fill_nth ow to t : forall skip cnt b,
  nth b (tbl_fill ow to skip cnt t) None =
  if (skip <=? b) && (b <? skip + cnt) && (b <? length t) then fill_entry ow to (nth b t None) else nth b t None.
Proof.
  induction t as [|e t IH]; intros skip cnt b.
  - cbn. destruct b; rewrite andb_false_r; reflexivity.
  - cbn [tbl_fill]. destruct skip as [|k].
    + destruct cnt as [|c].
      * replace (b <? 0 + 0) with false by (symmetry; apply Nat.ltb_ge; lia).
        rewrite andb_false_r. reflexivity.
      * destruct b as [|b]; cbn [nth length].
        -- reflexivity.
        -- rewrite IH. cbn [Nat.leb].
           change (S b <? 0 + S c) with (b <? 0 + c). change (S b <? S (length t)) with (b <? length t).
           reflexivity.
    + destruct b as [|b]; cbn [nth length].
      * reflexivity.
      * rewrite IH. change (S k <=? S b) with (k <=? b).
        change (S b <? S k + cnt) with (b <? k + cnt). change (S b <? S (length t)) with (b <? length t).
        reflexivity.
Qed.

(* ---------- well-formed DFAs ---------- *)
Definition wf_tables (d : dfa) : Prop := forall i s, nth_error d i = Some s -> length (st_next s) = 256.

Lemma empty_next_length : length empty_next = 256.
Proof. apply repeatN_length. Qed.
Lemma nth_empty_next b : nth b empty_next None = None.
Proof. apply nth_repeatN. Qed.

Lemma get_next_ge d i b : length d <= i -> get_next d i b = None.
Proof. intros H. unfold get_next. apply nth_error_None in H. now rewrite H. Qed.

Lemma get_next_app_old d x i b : i < length d -> get_next (d ++ x) i b = get_next d i b.
Proof. intros H. unfold get_next. now rewrite nth_error_app1. Qed.

Lemma get_next_new d m b : get_next (d ++ [new_st m]) (length d) b = None.
Proof.
  unfold get_next. rewrite nth_error_app2, Nat.sub_diag by lia. cbn. apply nth_empty_next.
Qed.

Lemma wf_tables_app d m : wf_tables d -> wf_tables (d ++ [new_st m]).
Proof.
  intros H i s E. destruct (Nat.lt_ge_cases i (length d)) as [Hi|Hi].
  - rewrite nth_error_app1 in E by assumption. eauto.
  - rewrite nth_error_app2 in E by assumption. destruct (i - length d) as [|k]; cbn in E.
    + inversion E. apply empty_next_length.
    + destruct k; discriminate.
Qed.

(* ---------- add_utf8_range ---------- *)
Definition in_range (r : N * N) (b : nat) : bool := (N.to_nat (fst r) <=? b) && (b <=? N.to_nat (snd r)).
Definition range_ok (r : N * N) : Prop := (fst r <= snd r)%N /\ (snd r < 256)%N.

Lemma add_range_length ow d from to r : length (add_utf8_range ow d from to r) = length d.
Proof. unfold add_utf8_range. destruct (nth_error d from); [apply set_nth_length|reflexivity]. Qed.

Lemma add_range_wf ow d from to r : wf_tables d -> wf_tables (add_utf8_range ow d from to r).
Proof.
  intros H i s E. unfold add_utf8_range in E. destruct (nth_error d from) as [s0|] eqn:E0; [|eauto].
  rewrite nth_error_set_nth in E. destruct (Nat.eqb from i) eqn:Ei; [|eauto].
  destruct (from <? length d); inversion E. cbn. rewrite tbl_fill_length. eauto.
Qed.

Lemma add_range_other ow d from to r i : i <> from -> nth_error (add_utf8_range ow d from to r) i = nth_error d i.
Proof.
  intros H. unfold add_utf8_range. destruct (nth_error d from); [|reflexivity].
  apply nth_error_set_nth_neq. congruence.
Qed.

Lemma add_range_match ow d from to r i :
  option_map st_match (nth_error (add_utf8_range ow d from to r) i) = option_map st_match (nth_error d i).
Proof.
  unfold add_utf8_range. destruct (nth_error d from) as [s0|] eqn:E0; [|reflexivity].
  rewrite nth_error_set_nth. destruct (Nat.eqb from i) eqn:Ei; [|reflexivity].
  apply Nat.eqb_eq in Ei. subst i. rewrite E0.
  assert (from < length d) as Hl by (apply nth_error_Some; congruence).
  apply Nat.ltb_lt in Hl. rewrite Hl. reflexivity.
Qed.

Lemma add_range_get ow d from to r i b :
  wf_tables d -> from < length d -> range_ok r ->
  get_next (add_utf8_range ow d from to r) i b =
  if Nat.eqb i from && in_range r b then fill_entry ow to (get_next d from b) else get_next d i b.
Proof.
  intros Hwf Hf [Hle Hlt]. unfold get_next at 1. unfold add_utf8_range.
  destruct (nth_error d from) as [s0|] eqn:E0; [|apply nth_error_None in E0; lia].
  rewrite nth_error_set_nth. rewrite (Nat.eqb_sym i from).
  destruct (Nat.eqb from i) eqn:Ei; cbn [andb]; [|reflexivity].
  apply Nat.eqb_eq in Ei. subst i. apply Nat.ltb_lt in Hf. rewrite Hf. cbn [st_next].
  rewrite tbl_fill_nth. rewrite (Hwf _ _ E0). unfold get_next. rewrite E0. unfold in_range.
  replace (N.to_nat (fst r) + N.to_nat (snd r + 1 - fst r)) with (N.to_nat (snd r) + 1) by lia.
  replace (b <? N.to_nat (snd r) + 1) with (b <=? N.to_nat (snd r))
    by (destruct (Nat.leb_spec b (N.to_nat (snd r))), (Nat.ltb_spec b (N.to_nat (snd r) + 1)); auto; lia).
  destruct (N.to_nat (fst r) <=? b) eqn:E1; cbn [andb]; [|reflexivity].
  destruct (b <=? N.to_nat (snd r)) eqn:E2; cbn [andb]; [|reflexivity].
  apply Nat.leb_le in E2. replace (b <? 256) with true by (symmetry; apply Nat.ltb_lt; lia). reflexivity.
Qed.

(* ---------- copy_next ---------- *)
Lemma copy_next_length d t o : length (copy_next d t o) = length d.
Proof. unfold copy_next. destruct (nth_error d t), (nth_error d o); try reflexivity. apply set_nth_length. Qed.

Lemma copy_next_other d t o i : i <> t -> nth_error (copy_next d t o) i = nth_error d i.
Proof.
  intros H. unfold copy_next. destruct (nth_error d t), (nth_error d o); try reflexivity.
  apply nth_error_set_nth_neq. congruence.
Qed.

Lemma copy_next_wf d t o : wf_tables d -> wf_tables (copy_next d t o).
Proof.
  intros H i s E. unfold copy_next in E.
  destruct (nth_error d t) as [st|] eqn:Et; [|eauto]. destruct (nth_error d o) as [so|] eqn:Eo; [|eauto].
  rewrite nth_error_set_nth in E. destruct (Nat.eqb t i); [|eauto].
  destruct (t <? length d); inversion E. cbn. eauto.
Qed.

Lemma copy_next_get d t o b : t < length d -> o < length d -> get_next (copy_next d t o) t b = get_next d o b.
Proof.
  intros Ht Ho. unfold copy_next, get_next.
  destruct (nth_error d t) as [st|] eqn:Et; [|apply nth_error_None in Et; lia].
  destruct (nth_error d o) as [so|] eqn:Eo; [|apply nth_error_None in Eo; lia].
  rewrite nth_error_set_nth_eq by assumption. reflexivity.
Qed.

Lemma copy_next_match d t o i :
  option_map st_match (nth_error (copy_next d t o) i) = option_map st_match (nth_error d i).
Proof.
  unfold copy_next. destruct (nth_error d t) as [st|] eqn:Et; [|reflexivity].
  destruct (nth_error d o) as [so|] eqn:Eo; [|reflexivity].
  rewrite nth_error_set_nth. destruct (Nat.eqb t i) eqn:Ei; [|reflexivity].
  apply Nat.eqb_eq in Ei. subst i. rewrite Et.
  assert (t < length d) as Hl by (apply nth_error_Some; congruence).
  apply Nat.ltb_lt in Hl. rewrite Hl. reflexivity.
Qed.

(* ---------- walks ---------- *)
Definition step (d : dfa) (s : option nat) (b : N) : option nat :=
  match s with Some i => get_next d i (N.to_nat b) | None => None end.
Definition walk (d : dfa) (s : option nat) (bs : list N) : option nat := fold_left (step d) bs s.

(* walking r from s ends in t, and every state whose table is consulted satisfies P *)
Fixpoint wpath (P : nat -> Prop) (d : dfa) (s : option nat) (r : list N) (t : option nat) : Prop :=
  match r with
  | [] => s = t
  | b :: r' => match s with
               | None => t = None
               | Some i => P i /\ wpath P d (get_next d i (N.to_nat b)) r' t
               end
  end.
(* the same from a state whose own table is consulted without condition; bs must be non-empty *)
Definition tpath (P : nat -> Prop) (d : dfa) (si : nat) (bs : list N) (t : option nat) : Prop :=
  match bs with [] => False | b :: r => wpath P d (get_next d si (N.to_nat b)) r t end.

Lemma walk_none d bs : walk d None bs = None.
Proof. induction bs; cbn; auto. Qed.

Lemma wpath_walk P d r : forall s t, wpath P d s r t -> walk d s r = t.
Proof.
  induction r as [|b r IH]; intros s t H; cbn in *; [exact H|].
  destruct s as [i|]; [apply IH, H|]. subst. apply walk_none.
Qed.
Lemma tpath_walk P d si bs t : tpath P d si bs t -> walk d (Some si) bs = t.
Proof. destruct bs as [|b r]; [intros []|]. intros H. exact (wpath_walk P d r _ t H). Qed.

Lemma wpath_none P d r : wpath P d None r None.
Proof. destruct r; reflexivity. Qed.

Lemma wpath_weaken (P P' : nat -> Prop) d r : (forall i, P i -> P' i) ->
  forall s t, wpath P d s r t -> wpath P' d s r t.
Proof.
  intros HP. induction r as [|b r IH]; intros s t H; cbn in *; [exact H|].
  destruct s as [i|]; [|exact H]. destruct H as [Hi H]. split; [now apply HP|now apply IH].
Qed.

Lemma wpath_agree (P : nat -> Prop) d d' r :
  (forall i b, P i -> get_next d' i b = get_next d i b) ->
  forall s t, wpath P d s r t -> wpath P d' s r t.
Proof.
  intros HP. induction r as [|b r IH]; intros s t H; cbn in *; [exact H|].
  destruct s as [i|]; [|exact H]. destruct H as [Hi H]. split; [exact Hi|].
  rewrite HP by exact Hi. now apply IH.
Qed.

Lemma tpath_weaken (P P' : nat -> Prop) d si bs t : (forall i, P i -> P' i) -> tpath P d si bs t -> tpath P' d si bs t.
Proof. intros HP. destruct bs; [exact (fun x => x)|]. now apply wpath_weaken. Qed.

Lemma get_next_of_nth d d' i b : nth_error d' i = nth_error d i -> get_next d' i b = get_next d i b.
Proof. unfold get_next. now intros ->. Qed.

(* ---------- add_utf8_seq ---------- *)
Definition singles (bs : list N) : utf8_seq := map (fun b => (b, b)) bs.
Definition matches (rs : utf8_seq) (bs : list N) : Prop :=
  Forall2 (fun r b => in_range r (N.to_nat b) = true) rs bs.
Definition diverge (a b : list N) : Prop :=
  exists p x y r r', a = p ++ x :: r /\ b = p ++ y :: r' /\ x <> y.

Lemma in_range_single b x : in_range (b, b) x = Nat.eqb x (N.to_nat b).
Proof.
  unfold in_range. cbn [fst snd].
  destruct (Nat.leb_spec (N.to_nat b) x), (Nat.leb_spec x (N.to_nat b)), (Nat.eqb_spec x (N.to_nat b)); cbn; auto; lia.
Qed.

(* the DFA after `let tsi = self.new_state(false); if overwrite { inherit }` *)
Definition seq_d2 (ow : bool) (d : dfa) (fsi : nat) (r : N * N) : dfa :=
  if ow then
    match get_next (d ++ [new_st false]) fsi (N.to_nat (fst r)) with
    | Some old => copy_next (d ++ [new_st false]) (length d) old
    | None => d ++ [new_st false]
    end
  else d ++ [new_st false].

Lemma add_seq_cons2 ow d fsi to r r2 rs :
  add_utf8_seq ow d fsi to (r :: r2 :: rs) =
  add_utf8_seq ow (add_utf8_range ow (seq_d2 ow d fsi r) fsi (length d) r) (length d) to (r2 :: rs).
Proof. reflexivity. Qed.
Lemma add_seq_one ow d fsi to r : add_utf8_seq ow d fsi to [r] = add_utf8_range ow d fsi to r.
Proof. reflexivity. Qed.

Lemma seq_d2_length ow d fsi r : length (seq_d2 ow d fsi r) = length d + 1.
Proof.
  unfold seq_d2. destruct ow; [destruct (get_next _ _ _); [rewrite copy_next_length|]|];
    rewrite app_length; cbn; lia.
Qed.
Lemma seq_d2_wf ow d fsi r : wf_tables d -> wf_tables (seq_d2 ow d fsi r).
Proof.
  intros H. unfold seq_d2. destruct ow; [destruct (get_next _ _ _); [apply copy_next_wf|]|];
    now apply wf_tables_app.
Qed.
Lemma seq_d2_old ow d fsi r i : i < length d -> nth_error (seq_d2 ow d fsi r) i = nth_error d i.
Proof.
  intros H. unfold seq_d2. destruct ow; [destruct (get_next _ _ _); [rewrite copy_next_other by lia|]|];
    now rewrite nth_error_app1.
Qed.
Lemma seq_d2_match ow d fsi r i : i < length d ->
  option_map st_match (nth_error (seq_d2 ow d fsi r) i) = option_map st_match (nth_error d i).
Proof. intros H. now rewrite seq_d2_old. Qed.

Lemma add_seq_length ow rs : forall d fsi to, length d <= length (add_utf8_seq ow d fsi to rs).
Proof.
  induction rs as [|r rs IH]; intros d fsi to; [cbn; lia|].
  destruct rs as [|r2 rs].
  - rewrite add_seq_one, add_range_length. lia.
  - rewrite add_seq_cons2. eapply Nat.le_trans; [|apply IH].
    rewrite add_range_length, seq_d2_length. lia.
Qed.

Lemma add_seq_wf ow rs : forall d fsi to, wf_tables d -> wf_tables (add_utf8_seq ow d fsi to rs).
Proof.
  induction rs as [|r rs IH]; intros d fsi to H; [exact H|].
  destruct rs as [|r2 rs].
  - rewrite add_seq_one. now apply add_range_wf.
  - rewrite add_seq_cons2. apply IH. apply add_range_wf. now apply seq_d2_wf.
Qed.

(* states other than the running from-state are left alone *)
Lemma add_seq_other ow rs : forall d fsi to i, i < length d -> i <> fsi ->
  nth_error (add_utf8_seq ow d fsi to rs) i = nth_error d i.
Proof.
  induction rs as [|r rs IH]; intros d fsi to i Hi Hn; [reflexivity|].
  destruct rs as [|r2 rs].
  - rewrite add_seq_one. now apply add_range_other.
  - rewrite add_seq_cons2. rewrite IH.
    + rewrite add_range_other by assumption. now apply seq_d2_old.
    + rewrite add_range_length, seq_d2_length. lia.
    + lia.
Qed.

Lemma add_seq_match ow rs : forall d fsi to i, i < length d ->
  option_map st_match (nth_error (add_utf8_seq ow d fsi to rs) i) = option_map st_match (nth_error d i).
Proof.
  induction rs as [|r rs IH]; intros d fsi to i Hi; [reflexivity|].
  destruct rs as [|r2 rs].
  - rewrite add_seq_one. apply add_range_match.
  - rewrite add_seq_cons2. rewrite IH by (rewrite add_range_length, seq_d2_length; lia).
    rewrite add_range_match. now apply seq_d2_match.
Qed.

Definition newer (d d' : dfa) (i : nat) : Prop := length d <= i < length d'.

(* --- without overwrite, on a from-state whose entries in the first range are empty --- *)
Lemma seq_nw rs : forall d fsi to,
  wf_tables d -> fsi < length d -> Forall range_ok rs -> rs <> [] ->
  (forall b, in_range (hd (0, 0)%N rs) b = true -> get_next d fsi b = None) ->
  let d' := add_utf8_seq false d fsi to rs in
  (forall b, in_range (hd (0, 0)%N rs) b = false -> get_next d' fsi b = get_next d fsi b) /\
  (forall bs, matches rs bs -> tpath (newer d d') d' fsi bs (Some to)).
Proof.
  induction rs as [|r rs IH]; intros d fsi to Hwf Hf Hok Hne Hnone; [congruence|].
  destruct rs as [|r2 rs].
  - cbn [add_utf8_seq hd] in *. inversion Hok; subst. split.
    + intros b Hb. rewrite add_range_get by assumption. rewrite Nat.eqb_refl, Hb. reflexivity.
    + intros bs Hm. inversion Hm as [|? b ? r' Hb Hr]; subst. inversion Hr; subst. cbn.
      rewrite add_range_get by assumption. rewrite Nat.eqb_refl, Hb. cbn [andb].
      rewrite Hnone by exact Hb. reflexivity.
  - cbn [hd] in *. rewrite add_seq_cons2. cbv zeta. unfold seq_d2.
    set (d1 := d ++ [new_st false]). set (tsi := length d).
    set (d3 := add_utf8_range false d1 fsi tsi r).
    inversion Hok as [|? ? Hr Hok']; subst.
    assert (wf_tables d1) as Hwf1 by now apply wf_tables_app.
    assert (length d1 = length d + 1) as Hl1 by (unfold d1; rewrite app_length; cbn; lia).
    assert (fsi < length d1) as Hf1 by lia.
    assert (wf_tables d3) as Hwf3 by now apply add_range_wf.
    assert (length d3 = length d + 1) as Hl3 by (unfold d3; rewrite add_range_length; lia).
    assert (forall b, get_next d3 tsi b = None) as Hempty.
    { intros b. unfold d3. rewrite add_range_get by assumption.
      replace (Nat.eqb tsi fsi) with false by (symmetry; apply Nat.eqb_neq; unfold tsi; lia).
      cbn [andb]. apply get_next_new. }
    destruct (IH d3 tsi to Hwf3 ltac:(unfold tsi; lia) Hok' ltac:(congruence) (fun b _ => Hempty b)) as [_ IHe].
    set (d' := add_utf8_seq false d3 tsi to (r2 :: rs)) in *.
    assert (forall b, get_next d' fsi b = get_next d3 fsi b) as Hfsi.
    { intros b. apply get_next_of_nth. apply add_seq_other; unfold tsi; lia. }
    split.
    + intros b Hb. rewrite Hfsi. unfold d3. rewrite add_range_get by assumption.
      rewrite Hb, andb_false_r. unfold d1. now rewrite get_next_app_old.
    + intros bs Hm. inversion Hm as [|? b ? bs' Hb Hm']; subst. cbn [tpath].
      rewrite Hfsi. unfold d3 at 1. rewrite add_range_get by assumption.
      rewrite Nat.eqb_refl, Hb. cbn [andb]. unfold d1 at 1. rewrite get_next_app_old by assumption.
      rewrite Hnone by exact Hb. cbn [fill_entry].
      specialize (IHe bs' Hm'). destruct bs' as [|b2 bs'']; [destruct IHe|]. cbn [tpath] in IHe. cbn [wpath].
      assert (length d3 <= length d') by apply add_seq_length.
      split; [unfold newer, tsi; lia|].
      eapply wpath_weaken; [|exact IHe]. unfold newer. intros; lia.
Qed.

(* --- with overwrite, on the bytes of one character --- *)
Lemma seq_ow_frame bs : forall d fsi to b, fsi < length d -> wf_tables d -> (forall x, In x bs -> (x < 256)%N) ->
  b <> N.to_nat (hd 0%N bs) ->
  get_next (add_utf8_seq true d fsi to (singles bs)) fsi b = get_next d fsi b.
Proof.
  intros d fsi to b Hf Hwf Hb Hne. destruct bs as [|b1 [|b2 bs]]; [reflexivity| |].
  - cbn [singles map]. rewrite add_seq_one. rewrite add_range_get; try assumption.
    + rewrite in_range_single. apply Nat.eqb_neq in Hne. cbn [hd] in Hne. rewrite Hne, andb_false_r. reflexivity.
    + split; cbn; [lia|apply Hb; now left].
  - cbn [singles map hd] in *. rewrite add_seq_cons2.
    erewrite get_next_of_nth; [|apply add_seq_other; [rewrite add_range_length, seq_d2_length|]; lia].
    rewrite add_range_get.
    + rewrite in_range_single. apply Nat.eqb_neq in Hne. rewrite Hne, andb_false_r.
      apply get_next_of_nth. now apply seq_d2_old.
    + now apply seq_d2_wf.
    + rewrite seq_d2_length. lia.
    + split; cbn; [lia|apply Hb; now left].
Qed.

Lemma seq_ow bs : forall d fsi to,
  wf_tables d -> fsi < length d -> (forall x, In x bs -> (x < 256)%N) -> bs <> [] ->
  let d' := add_utf8_seq true d fsi to (singles bs) in
  tpath (newer d d') d' fsi bs (Some to) /\
  (forall (P : nat -> Prop) xs t, diverge bs xs -> (forall i, P i -> i < length d /\ i <> fsi) ->
     tpath P d fsi xs t -> tpath (fun i => P i \/ newer d d' i) d' fsi xs t).
Proof.
  induction bs as [|b1 bs IH]; intros d fsi to Hwf Hf Hb Hne; [congruence|].
  assert (range_ok (b1, b1)) as Hr1 by (split; cbn; [lia|apply Hb; now left]).
  destruct bs as [|b2 bs].
  - (* last byte: states[fsi].next[b1] = to *)
    cbn [singles map]. rewrite add_seq_one. cbv zeta. split.
    + cbn [tpath wpath]. rewrite add_range_get by assumption.
      rewrite Nat.eqb_refl, in_range_single, Nat.eqb_refl. reflexivity.
    + intros P xs t (p & x & y & r & r' & E1 & E2 & Hxy) HP Hp.
      destruct p as [|p0 p]; [|destruct p; discriminate]. cbn [app] in *. inversion E1; subst x r. subst xs.
      cbn [tpath] in *. rewrite add_range_get by assumption. rewrite in_range_single.
      replace (Nat.eqb (N.to_nat y) (N.to_nat b1)) with false by (symmetry; apply Nat.eqb_neq; lia).
      rewrite andb_false_r.
      eapply wpath_weaken; [intros i Hi; left; exact Hi|].
      eapply wpath_agree; [|exact Hp].
      intros i b Hi. apply get_next_of_nth, add_range_other. apply HP in Hi. lia.
  - cbn [singles map]. rewrite add_seq_cons2. cbv zeta. fold (singles bs). unfold seq_d2.
    set (d1 := d ++ [new_st false]). set (tsi := length d).
    set (d2 := match get_next d1 fsi (N.to_nat (fst (b1, b1))) with Some old => copy_next d1 tsi old | None => d1 end).
    set (d3 := add_utf8_range true d2 fsi tsi (b1, b1)).
    change ((b2, b2) :: singles bs) with (singles (b2 :: bs)).
    assert (length d1 = length d + 1) as Hl1 by (unfold d1; rewrite app_length; cbn; lia).
    assert (wf_tables d1) as Hwf1 by now apply wf_tables_app.
    assert (length d2 = length d + 1) as Hl2
      by (unfold d2; destruct (get_next _ _ _); [rewrite copy_next_length|]; lia).
    assert (wf_tables d2) as Hwf2 by (unfold d2; destruct (get_next _ _ _); [apply copy_next_wf|]; assumption).
    assert (length d3 = length d + 1) as Hl3 by (unfold d3; rewrite add_range_length; lia).
    assert (wf_tables d3) as Hwf3 by now apply add_range_wf.
    assert (forall i, i < length d -> i <> fsi -> nth_error d3 i = nth_error d i) as Hold3.
    { intros i Hi Hn. unfold d3. rewrite add_range_other by assumption.
      unfold d2. destruct (get_next _ _ _); [rewrite copy_next_other by (unfold tsi; lia)|];
        unfold d1; now rewrite nth_error_app1. }
    destruct (IH d3 tsi to Hwf3 ltac:(unfold tsi; lia) (fun x Hx => Hb x (or_intror Hx)) ltac:(congruence))
      as [IHe IHf].
    set (d' := add_utf8_seq true d3 tsi to (singles (b2 :: bs))) in *.
    assert (length d3 <= length d') as Hl' by apply add_seq_length.
    assert (forall b, get_next d' fsi b = get_next d3 fsi b) as Hfsi.
    { intros b. apply get_next_of_nth. apply add_seq_other; unfold tsi; lia. }
    assert (get_next d' fsi (N.to_nat b1) = Some tsi) as Hstep.
    { rewrite Hfsi. unfold d3. rewrite add_range_get by (assumption || lia).
      rewrite Nat.eqb_refl, in_range_single, Nat.eqb_refl. reflexivity. }
    assert (newer d d' tsi) as Hnt by (unfold newer, tsi; lia).
    split.
    + cbn [tpath]. rewrite Hstep. cbn [tpath] in IHe. cbn [wpath]. split; [exact Hnt|].
      eapply wpath_weaken; [|exact IHe]. unfold newer. intros; lia.
    + intros P xs t (p & x & y & r & r' & E1 & E2 & Hxy) HP Hp.
      assert (forall i b, P i -> get_next d3 i b = get_next d i b) as Hagree3.
      { intros i b Hi. apply HP in Hi. apply get_next_of_nth, Hold3; lia. }
      destruct p as [|p0 p].
      * (* diverges at the first byte *)
        cbn [app] in *. inversion E1; subst x r. subst xs. cbn [tpath] in *.
        rewrite Hfsi. unfold d3 at 1. rewrite add_range_get by (assumption || lia). rewrite in_range_single.
        replace (Nat.eqb (N.to_nat y) (N.to_nat b1)) with false by (symmetry; apply Nat.eqb_neq; lia).
        rewrite andb_false_r.
        replace (get_next d2 fsi (N.to_nat y)) with (get_next d fsi (N.to_nat y)).
        2:{ symmetry. apply get_next_of_nth. unfold d2.
            destruct (get_next _ _ _); [rewrite copy_next_other by (unfold tsi; lia)|];
              unfold d1; now rewrite nth_error_app1. }
        eapply wpath_weaken; [intros i Hi; left; exact Hi|].
        eapply wpath_agree; [|exact Hp].
        intros i b Hi. pose proof (HP i Hi). rewrite <- Hagree3 by exact Hi.
        apply get_next_of_nth, add_seq_other; unfold tsi; lia.
      * (* shares the first byte: continue from the copy *)
        cbn [app] in *. inversion E1; subst p0. subst xs. cbn [tpath] in Hp |- *.
        rewrite Hstep.
        assert (diverge (b2 :: bs) (p ++ y :: r')) as Hdiv by (exists p, x, y, r, r'; auto).
        assert (tpath P d3 tsi (p ++ y :: r') t) as Hp3.
        { destruct (p ++ y :: r') as [|x1 xs'] eqn:Exs; [destruct p; discriminate|]. cbn [tpath].
          cbn [fst] in d2.
          assert (get_next d3 tsi (N.to_nat x1) = get_next d2 tsi (N.to_nat x1)) as E3.
          { unfold d3. rewrite add_range_get by (assumption || lia).
            replace (Nat.eqb tsi fsi) with false by (symmetry; apply Nat.eqb_neq; unfold tsi; lia). reflexivity. }
          rewrite E3. unfold d2.
          replace (get_next d1 fsi (N.to_nat b1)) with (get_next d fsi (N.to_nat b1))
            by (unfold d1; now rewrite get_next_app_old).
          destruct (get_next d fsi (N.to_nat b1)) as [o|] eqn:Eo.
          - cbn [wpath] in Hp. destruct Hp as [Po Hp]. pose proof (HP o Po) as [Ho1 Ho2].
            rewrite copy_next_get by (unfold tsi; lia).
            unfold d1 at 1. rewrite get_next_app_old by assumption.
            eapply wpath_agree; [|exact Hp]. exact Hagree3.
          - cbn [wpath] in Hp. subst t. unfold d1, tsi. rewrite get_next_new. apply wpath_none. }
        specialize (IHf P _ t Hdiv ltac:(intros i Hi; apply HP in Hi; unfold tsi; lia) Hp3).
        destruct (p ++ y :: r') as [|x1 xs'] eqn:Exs; [destruct p; discriminate|].
        cbn [tpath] in IHf. cbn [wpath]. split; [right; exact Hnt|].
        eapply wpath_weaken; [|exact IHf]. unfold newer. intros i [Hi|Hi]; [left; exact Hi|right; lia].
Qed.
