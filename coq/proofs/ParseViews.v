(* ParseViews.v — a file accepted by Format.spec_parse presents its graph to the reader model,
   given the per-node statement reader = spec (CodecSpec.reader_eq_spec_statement). *)
Require Import FstV.Base FstV.Pack FstV.Node FstV.Reader FstV.GraphSem FstV.Format FstV.Fst FstV.CodecSpec.
Require Import FstV.proofs.NodeGraphLemmas.
Require Import Coq.FSets.FMapPositive.
From Coq Require Import ZArith ZifyN ZifyBool ZifyNat.
Ltac Zify.zify_post_hook ::= Z.div_mod_to_equations.

(* ---------- list facts ---------- *)
Lemma skipn_rev_firstn : forall {A} (bs : list A) (p k : nat),
  (k <= p)%nat -> (p <= length bs)%nat ->
  skipn k (rev (firstn p bs)) = rev (firstn (p - k) bs).
Proof.
  intros A bs p k Hk Hp.
  rewrite <- (firstn_skipn (p - k) (firstn p bs)) at 1.
  rewrite firstn_firstn. replace (Nat.min (p - k) p) with (p - k)%nat by lia.
  rewrite rev_app_distr.
  assert (Hl : length (rev (skipn (p - k) (firstn p bs))) = k).
  { rewrite rev_length, skipn_length, firstn_length. lia. }
  rewrite skipn_app, Hl, Nat.sub_diag. cbn [skipn].
  rewrite <- Hl at 1. rewrite skipn_all. reflexivity.
Qed.

Lemma succ_pos_inj : forall a b, N.succ_pos a = N.succ_pos b -> a = b.
Proof.
  intros a b H. apply (f_equal Npos) in H. rewrite !N.succ_pos_spec in H. lia.
Qed.

(* ---------- node_table ---------- *)
Lemma node_table_fold_in : forall (l : list (N * snode)) m a sn,
  PositiveMap.find (N.succ_pos a)
    (fold_left (fun m x => PositiveMap.add (N.succ_pos (fst x)) (snd x) m) l m) = Some sn ->
  In (a, sn) l \/ PositiveMap.find (N.succ_pos a) m = Some sn.
Proof.
  induction l as [|x r IH]; intros m a sn H.
  - right. exact H.
  - cbn [fold_left] in H. apply IH in H. destruct H as [H|H].
    + left. right. exact H.
    + destruct (N.eq_dec (fst x) a) as [E|E].
      * subst a. rewrite PositiveMap.gss in H. left. left. destruct x; cbn in *. congruence.
      * rewrite PositiveMap.gso in H; [right; exact H|].
        intros E'. apply succ_pos_inj in E'. congruence.
Qed.

Lemma node_table_in : forall l a sn,
  PositiveMap.find (N.succ_pos a) (node_table l) = Some sn -> In (a, sn) l.
Proof.
  intros l a sn H. unfold node_table in H. apply node_table_fold_in in H.
  destruct H as [H|H]; [exact H|]. rewrite PositiveMap.gempty in H. discriminate.
Qed.

(* ---------- spec_node ---------- *)
Ltac hd H :=
  match type of H with
  | (if ?c then _ else _) = _ => destruct c eqn:?
  | match ?c with Some _ => _ | None => _ end = _ => destruct c as [?|] eqn:?
  | match ?c with [] => _ | _ :: _ => _ end = _ => destruct c as [|? ?] eqn:?
  | match ?c with (_, _) => _ end = _ => destruct c as [? ?]
  end; try discriminate H.

Lemma spec_node_size_pos : forall version rv addr sn,
  spec_node version rv addr = Some sn -> 1 <= sn_size sn.
Proof.
  intros version rv addr sn H. unfold spec_node in H.
  destruct rv as [|s r0]; [discriminate|].
  destruct (192 <=? s).
  { destruct (s mod 64 =? 0).
    - destruct r0; [discriminate|]. destruct (2 <=? addr); [|discriminate].
      inversion H; subst; cbn [sn_size]; lia.
    - destruct (common_of (s mod 64)); [|discriminate]. destruct (1 <=? addr); [|discriminate].
      inversion H; subst; cbn [sn_size]; lia. }
  destruct (128 <=? s).
  { repeat hd H.
    inversion H; subst; cbn [sn_size]; lia. }
  repeat hd H.
  inversion H; subst; cbn [sn_size]; lia.
Qed.

(* ---------- tiles ---------- *)
Definition node_fact (version : N) (bs : list N) (a : N) (sn : snode) : Prop :=
  15 < a /\ a < len bs /\
  spec_node version (rev (firstn (N.to_nat a + 1) bs)) a = Some sn /\
  snode_ok (a + 1 - sn_size sn) sn = true.

Lemma tiles_inv : forall version bs fuel rv addr acc res,
  tiles version fuel rv addr acc = Some res ->
  rv = rev (firstn (N.to_nat addr + 1) bs) ->
  (N.to_nat addr < length bs)%nat ->
  (forall a sn, In (a, sn) acc -> node_fact version bs a sn) ->
  forall a sn, In (a, sn) res -> node_fact version bs a sn.
Proof.
  intros version bs fuel. induction fuel as [|f IH]; intros rv addr acc res H Hrv Hlt Hacc.
  - discriminate.
  - cbn [tiles] in H.
    destruct (addr =? 15) eqn:E15.
    { inversion H; subst res. exact Hacc. }
    destruct (spec_node version rv addr) as [n|] eqn:Esn; [|discriminate].
    destruct (snode_ok (addr + 1 - sn_size n) n) eqn:Eok; cbn [negb] in H; [|discriminate].
    destruct (addr <? 15 + sn_size n) eqn:Esz; [discriminate|].
    pose proof (spec_node_size_pos _ _ _ _ Esn) as Hpos.
    apply N.ltb_ge in Esz. apply N.eqb_neq in E15.
    eapply IH; [exact H| | |].
    + subst rv. rewrite skipn_rev_firstn by lia. f_equal. f_equal. lia.
    + lia.
    + intros a sn [Hin|Hin]; [|auto].
      inversion Hin; subst a sn. unfold node_fact. subst rv.
      repeat split; try assumption; unfold len; lia.
Qed.

(* ---------- spec_parse, taken apart ---------- *)
Definition foot_of (version : N) : nat := if 3 <=? version then 20%nat else 16%nat.

Lemma spec_parse_inv : forall bs p, spec_parse bs = Some p ->
  let n := length bs in
  let version := le_value (firstn 8 bs) in
  let body_end := (n - foot_of version)%nat in
  let root := le_value (firstn 8 (skipn (body_end + 8) bs)) in
  1 <= version /\ version <= 3 /\ (32 <= n)%nat /\ (16 + foot_of version <= n)%nat /\
  p_version p = version /\
  p_ty p = le_value (firstn 8 (skipn 8 bs)) /\
  p_len p = le_value (firstn 8 (skipn body_end bs)) /\
  p_root p = root /\
  ((root = 0 /\ p_nodes p = [] /\ p_content p = [([], 0)]) \/
   (root <> 0 /\ N.of_nat body_end = root + 1 /\
    tiles version (S n) (rev (firstn body_end bs)) root [] = Some (p_nodes p) /\
    forallb (fun x => forallb (fun t => match tbl_get (node_table (p_nodes p)) (t_addr t) with
                                        | Some _ => true | None => false end)
                              (sn_trans (snd x))) (p_nodes p) = true /\
    lang (graph_of (node_table (p_nodes p))) (S n) root = Some (p_content p))).
Proof.
  intros bs p H. unfold spec_parse in H. fold (foot_of (le_value (firstn 8 bs))) in H.
  cbv zeta.
  set (version := le_value (firstn 8 bs)) in *.
  destruct (Nat.ltb (length bs) 32) eqn:E32; [discriminate|].
  destruct ((version =? 0) || (3 <? version)) eqn:Ev; [discriminate|].
  destruct (Nat.ltb (length bs) (16 + foot_of version)) eqn:Ef; [discriminate|].
  apply Nat.ltb_ge in E32, Ef.
  assert (1 <= version /\ version <= 3) as [Hv1 Hv3] by lia.
  set (body_end := (length bs - foot_of version)%nat) in *.
  set (root := le_value (firstn 8 (skipn (body_end + 8) bs))) in *.
  destruct (root =? 0) eqn:Er.
  { destruct (Nat.eqb body_end 16); [|discriminate].
    apply N.eqb_eq in Er.
    inversion H; subst p; cbn [p_version p_ty p_len p_root p_nodes p_content].
    do 8 (split; [assumption || reflexivity|]). left. auto. }
  destruct (N.of_nat body_end =? root + 1) eqn:Eb; cbn [negb] in H; [|discriminate].
  destruct (tiles version (S (length bs)) (rev (firstn body_end bs)) root []) as [nodes|] eqn:Et; [|discriminate].
  match type of H with (if negb ?c then _ else _) = _ => destruct c eqn:Efa end; cbn [negb] in H; [|discriminate].
  destruct (lang (graph_of (node_table nodes)) (S (length bs)) root) as [content|] eqn:El; [|discriminate].
  apply N.eqb_eq in Eb. apply N.eqb_neq in Er.
  inversion H; subst p; cbn [p_version p_ty p_len p_root p_nodes p_content].
  do 8 (split; [assumption || reflexivity|]). right. auto.
Qed.

(* ---------- the graph of a node table ---------- *)
Lemma strictly_increasing_inputs : forall ts,
  strictly_increasing (map t_inp ts) = inputs_increasing ts.
Proof.
  induction ts as [|a r IH]; [reflexivity|].
  destruct r as [|b r']; [reflexivity|].
  change (((t_inp a <? t_inp b) && strictly_increasing (map t_inp (b :: r'))) =
          ((t_inp a <? t_inp b) && inputs_increasing (b :: r'))).
  rewrite IH. reflexivity.
Qed.

Lemma graph_of_some : forall tbl a n, graph_of tbl a = Some n ->
  exists sn, PositiveMap.find (N.succ_pos a) tbl = Some sn /\ n = gnode_of sn.
Proof.
  intros tbl a n H. unfold graph_of in H.
  destruct (PositiveMap.find (N.succ_pos a) tbl) as [sn|]; [|discriminate].
  inversion H. eauto.
Qed.

Lemma tbl_get_gget : forall tbl a sn, tbl_get tbl a = Some sn ->
  exists n, gget (graph_of tbl) a = Some n.
Proof.
  intros tbl a sn H. unfold tbl_get in H. unfold gget, graph_of.
  destruct (a =? 0); [eauto|]. rewrite H. eauto.
Qed.

Definition targets_known (nodes : list (N * snode)) : bool :=
  forallb (fun x => forallb (fun t => match tbl_get (node_table nodes) (t_addr t) with
                                      | Some _ => true | None => false end)
                            (sn_trans (snd x))) nodes.

Lemma wf_graph_of_nodes : forall version bs nodes,
  (forall a sn, In (a, sn) nodes -> node_fact version bs a sn) ->
  targets_known nodes = true ->
  wf_graph (graph_of (node_table nodes)).
Proof.
  intros version bs nodes Hfacts Hfa a n Hg. unfold gget in Hg.
  destruct (a =? 0) eqn:E0.
  - inversion Hg; subst n. cbn. split; [reflexivity|]. intros t [].
  - apply graph_of_some in Hg. destruct Hg as [sn [Hf ->]]. cbn [gnode_of g_trans].
    apply node_table_in in Hf.
    destruct (Hfacts _ _ Hf) as (H15 & Hlen & Hsn & Hok).
    pose proof (spec_node_size_pos _ _ _ _ Hsn) as Hpos.
    unfold snode_ok in Hok. apply andb_true_iff in Hok. destruct Hok as [Hok Hts].
    apply andb_true_iff in Hok. destruct Hok as [Hinc _].
    split; [rewrite <- strictly_increasing_inputs; exact Hinc|].
    intros t Hin. rewrite forallb_forall in Hts. specialize (Hts t Hin).
    unfold targets_known in Hfa. rewrite forallb_forall in Hfa. specialize (Hfa _ Hf).
    cbn [snd] in Hfa. rewrite forallb_forall in Hfa. specialize (Hfa t Hin).
    split; [lia|]. split; [lia|].
    destruct (tbl_get (node_table nodes) (t_addr t)) as [sn'|] eqn:Et; [|discriminate].
    eapply tbl_get_gget; eauto.
Qed.

(* ---------- views ---------- *)
Lemma concrete_node_at_zero : forall get version,
  exists v, concrete_node_at get version 0 = Ok v /\ nv_addr v = 0 /\ nv_final v = true /\
            nv_fout v = 0 /\ nv_trans v = [] /\ forall b, nv_find v b = Ok None.
Proof.
  intros get version. eexists. split; [reflexivity|]. cbn. repeat split.
Qed.

Lemma views_of_nodes : reader_eq_spec_statement ->
  forall version bs nodes,
  1 <= version -> version <= 3 -> Forall (fun b => b < 256) bs ->
  (forall a sn, In (a, sn) nodes -> node_fact version bs a sn) ->
  views (graph_of (node_table nodes)) (concrete_node_at (list_get bs) version).
Proof.
  intros HR version bs nodes Hv1 Hv3 Hb Hfacts a n Hg. unfold gget in Hg.
  destruct (a =? 0) eqn:E0.
  - apply N.eqb_eq in E0. subst a. inversion Hg; subst n.
    destruct (concrete_node_at_zero (list_get bs) version) as [v (H1 & H2 & H3 & H4 & H5 & H6)].
    exists v. cbn [g_empty_final g_final g_fout g_trans find_pos]. repeat split; auto.
  - apply graph_of_some in Hg. destruct Hg as [sn [Hf ->]]. cbn [gnode_of g_trans g_final g_fout].
    apply node_table_in in Hf.
    destruct (Hfacts _ _ Hf) as (H15 & Hlen & Hsn & Hok).
    apply (HR version bs a sn); auto. lia.
Qed.

(* ---------- header / footer fields ---------- *)
Lemma read_meta_spec : forall bs,
  let n := length bs in
  let version := le_value (firstn 8 bs) in
  let body_end := (n - foot_of version)%nat in
  1 <= version -> version <= 3 -> (16 + foot_of version <= n)%nat ->
  m_version (read_meta bs) = version /\
  m_ty (read_meta bs) = le_value (firstn 8 (skipn 8 bs)) /\
  m_len (read_meta bs) = le_value (firstn 8 (skipn body_end bs)) /\
  m_root (read_meta bs) = le_value (firstn 8 (skipn (body_end + 8) bs)).
Proof.
  intros bs n version body_end Hv1 Hv3 Hn.
  unfold read_meta, slice. cbn [m_version m_ty m_len m_root skipn].
  fold version. fold n. subst body_end. unfold foot_of in *.
  destruct (N.leb_spec version 2) as [H2|H2]; destruct (N.leb_spec 3 version) as [H3|H3]; try lia.
  - repeat split; do 3 f_equal; lia.
  - repeat split; do 3 f_equal; lia.
Qed.

(* ---------- the whole-file statement ---------- *)
Lemma graph_of_empty : forall a, graph_of (node_table []) a = None.
Proof. intros a. unfold graph_of, node_table. cbn [fold_left]. rewrite PositiveMap.gempty. reflexivity. Qed.

Theorem parse_views_from_reader : reader_eq_spec_statement -> parse_views_statement.
Proof.
  intros HR bs p Hb Hp. cbv zeta.
  pose proof (spec_parse_inv bs p Hp) as Hinv. cbv zeta in Hinv.
  set (n := length bs) in *.
  set (version := le_value (firstn 8 bs)) in *.
  set (body_end := (n - foot_of version)%nat) in *.
  set (root := le_value (firstn 8 (skipn (body_end + 8) bs))) in *.
  destruct Hinv as (Hv1 & Hv3 & Hn32 & Hn & Epv & Ety & Elen & Eroot & Hcase).
  destruct (read_meta_spec bs Hv1 Hv3 Hn) as (M1 & M2 & M3 & M4).
  fold n version body_end root in M1, M2, M3, M4.
  rewrite Epv, Ety, Elen, Eroot.
  assert (Hfacts_wf_views :
    (forall a sn, In (a, sn) (p_nodes p) -> node_fact version bs a sn) ->
    targets_known (p_nodes p) = true ->
    wf_graph (graph_of (node_table (p_nodes p))) /\
    views (graph_of (node_table (p_nodes p))) (concrete_node_at (list_get bs) version)).
  { intros Hf Ht. split; [eapply wf_graph_of_nodes; eauto|apply views_of_nodes; auto]. }
  destruct Hcase as [(Er & Enodes & Econt)|(Er & Ebe & Etiles & Hfa & Hlang)].
  - rewrite Enodes in *. rewrite Er, Econt.
    destruct Hfacts_wf_views as [Hwf Hviews]; [intros a sn []|reflexivity|].
    split; [exact Hwf|]. split; [exact Hviews|]. split; [eexists; reflexivity|].
    split; [reflexivity|]. repeat split; congruence.
  - assert (Hfacts : forall a sn, In (a, sn) (p_nodes p) -> node_fact version bs a sn).
    { eapply (tiles_inv version bs _ _ _ _ _ Etiles).
      - f_equal. f_equal. lia.
      - lia.
      - intros a sn []. }
    destruct (Hfacts_wf_views Hfacts Hfa) as [Hwf Hviews].
    destruct (lang_some_gget _ _ _ _ Hlang) as [r Hr].
    split; [exact Hwf|]. split; [exact Hviews|]. split; [eauto|].
    split; [|auto].
    symmetry. eapply lang_fuel; [exact Hwf|exact Hr| |exact Hlang]. lia.
Qed.

Print Assumptions parse_views_from_reader.
