(* Ops.v — model of src/raw/ops.rs (OpBuilder, StreamHeap, Union, Intersection, Difference,
   SymmetricDifference) and of Fst::{is_disjoint,is_subset,is_superset} (src/raw/mod.rs),
   plus the set-theoretic specification.  No proofs here.

   An input stream is a caller-supplied Streamer.  `Streamer` (like `Iterator`) gives no "fused"
   guarantee: a stream may yield further items when it is polled again after it has returned
   None (think of a paged cursor).  An [instream] is therefore the list [s_items] it yields before
   its first None TOGETHER WITH an arbitrary continuation [s_after]: the answer to the n-th poll
   made after that first None (chosen by an adversary; [inert] = None for ever).  A [reader] is a
   stream being read: [Live rest] (has not returned None yet) or [Done n] (has returned None and
   has been polled n more times since), plus a count of all the polls made.  Every read of an
   input stream in the code is a [poll] here, so "an exhausted stream is never polled again" is
   the statement that no reader ever reaches [Done (S _)].

   BinaryHeap<Slot> is a list of slots
   together with a function [pop_min] about which only "returns a least (input, output) slot
   and leaves the rest" is assumed (Slot's Ord is the reverse of (input, output), so the heap's
   maximum is the smallest pair; std does not specify which of several equal maxima comes out).
   [peek] shows the element [pop] would return (both are data[0] in std).

   Fuel: every Rust `loop`/`while` is a Fixpoint on a nat computed from the state it starts in;
   running out of fuel is the value [None] of [fres], distinct from a panic [Some Panic]. *)
Require Import FstV.Base.
From Coq Require Import Permutation.

Record slot := mkslot { idx : nat; input : key; output : N }.

(* ---------- input streams ---------- *)
Record instream := mkinstream { s_items : list kv; s_after : nat -> option kv }.
Definition inert (l : list kv) : instream := mkinstream l (fun _ => None).
Inductive rstate := Live (rest : list kv) | Done (again : nat).
Record reader := mkreader { r_state : rstate; r_after : nat -> option kv; r_polls : nat }.
Definition open (x : instream) : reader := mkreader (Live (s_items x)) (s_after x) O.
(* Streamer::next on an input stream *)
Definition poll (r : reader) : option kv * reader :=
  let p := S (r_polls r) in
  match r_state r with
  | Live (e :: l) => (Some e, mkreader (Live l) (r_after r) p)
  | Live [] => (None, mkreader (Done O) (r_after r) p)
  | Done n => (r_after r n, mkreader (Done (S n)) (r_after r) p)
  end.
(* what is observed of a reader: (polls made, polls made after it had returned None) *)
Definition again_of (r : reader) : nat := match r_state r with Done n => n | Live _ => O end.
Definition polls_of (rs : list reader) : list (nat * nat) := map (fun r => (r_polls r, again_of r)) rs.
Definition live_of (s : rstate) : list kv := match s with Live l => l | Done _ => [] end.

Record sheap := mksheap { rdrs : list reader; heap : list slot }.
Definition iv := (nat * N)%type.            (* IndexedValue { index, value } *)
Definition item := (key * list iv)%type.    (* what the op streams yield *)
Definition indexed_value (s : slot) : iv := (idx s, output s).

(* Slot order as seen by the heap: smaller (input, output) = greater Slot *)
Definition slot_leb (s t : slot) : bool :=
  match lex_cmp (input s) (input t) with
  | Lt => true
  | Gt => false
  | Eq => N.leb (output s) (output t)
  end.

Definition admissible (pop_min : list slot -> option (slot * list slot)) : Prop :=
  forall h, match pop_min h with
            | None => h = []
            | Some (s, r) => Permutation (s :: r) h /\ Forall (fun t => slot_leb s t = true) h
            end.

(* fuelled results: None = fuel exhausted; Some Panic = Rust panic *)
Definition fres (A : Type) := option (res A).
Definition fret {A} (a : A) : fres A := Some (Ok a).
Definition lift {A} (r : res A) : fres A := Some r.
Definition fbind {A B} (r : fres A) (f : A -> fres B) : fres B :=
  match r with
  | None => None
  | Some (Ok a) => f a
  | Some (Err e) => Some (Err e)
  | Some Panic => Some Panic
  end.
Notation "'fdo' x <- r ; k" := (fbind r (fun x => k))
  (at level 200, x pattern, r at level 100, k at level 200, right associativity).

Definition total (ss : list (list kv)) : nat := fold_right (fun s a => (length s + a)%nat) O ss.
(* items the readers have not yielded yet *)
Definition rtotal (rs : list reader) : nat := total (map (fun r => live_of (r_state r)) rs).

(* Vec::swap_remove(0): panics (None) on an empty vector; otherwise the last element takes slot 0 *)
Fixpoint split_last {A} (x : A) (l : list A) : list A * A :=
  match l with
  | [] => ([], x)
  | y :: r => let (i, z) := split_last y r in (x :: i, z)
  end.
Definition swap_remove0 {A} (l : list A) : option (A * list A) :=
  match l with
  | [] => None
  | x :: [] => Some (x, [])
  | x :: y :: r => let (i, z) := split_last y r in Some (x, z :: i)
  end.

Inductive selop := OpInter | OpSymdiff.

Section Model.
Variable pop_min : list slot -> option (slot * list slot).

(* ---------- StreamHeap ---------- *)
(* refill: self.rdrs[slot.idx] (index panic when out of range); push only if the reader yields *)
Definition refill (u : sheap) (s : slot) : res sheap :=
  match nth_error (rdrs u) (idx s) with
  | None => Panic
  | Some r =>
    let (a, r') := poll r in
    let rs := set_nth (rdrs u) (idx s) r' in
    match a with
    | None => Ok (mksheap rs (heap u))
    | Some (k, v) => Ok (mksheap rs (mkslot (idx s) k v :: heap u))
    end
  end.

(* StreamHeap::new: for i in 0..rdrs.len() { refill(Slot::new(i)) } *)
Fixpoint refill_all (u : sheap) (i n : nat) : res sheap :=
  match n with
  | O => Ok u
  | S n' => do u' <- refill u (mkslot i [] 0); refill_all u' (S i) n'
  end.
Definition sh_new (streams : list instream) : res sheap :=
  refill_all (mksheap (map open streams) []) O (length streams).

Definition sh_pop (u : sheap) : option (slot * sheap) :=
  match pop_min (heap u) with
  | Some (s, r) => Some (s, mksheap (rdrs u) r)
  | None => None
  end.
Definition sh_peek (u : sheap) : option slot :=
  match pop_min (heap u) with Some (s, _) => Some s | None => None end.
Definition sh_pop_if_equal (u : sheap) (k : key) : option (slot * sheap) :=
  match sh_peek u with
  | Some s => if key_eqb (input s) k then sh_pop u else None
  | None => None
  end.
Definition sh_pop_if_le (u : sheap) (k : key) : option (slot * sheap) :=
  match sh_peek u with
  | Some s => if key_leb (input s) k then sh_pop u else None
  | None => None
  end.
Definition num_slots (u : sheap) : nat := length (rdrs u).

(* while let Some(slot2) = heap.pop_if_equal(key) { outs.push(..); heap.refill(slot2); popped += 1 }
   (Union has no counter; it ignores the third component) *)
Fixpoint drain_equal (fuel : nat) (u : sheap) (k : key) (outs : list iv) (popped : nat)
  : fres (sheap * list iv * nat) :=
  match fuel with
  | O => None
  | S f =>
    match sh_pop_if_equal u k with
    | None => fret (u, outs, popped)
    | Some (s2, u1) =>
      fdo u2 <- lift (refill u1 s2);
      drain_equal f u2 k (outs ++ [indexed_value s2]) (S popped)
    end
  end.

(* ---------- Union / Intersection / SymmetricDifference ---------- *)
Record opstate := mkop { o_heap : sheap; o_outs : list iv; o_cur : option slot }.

(* if let Some(slot) = self.cur_slot.take() { self.heap.refill(slot) } *)
Definition refill_cur (st : opstate) : res sheap :=
  match o_cur st with
  | Some s => refill (o_heap st) s
  | None => Ok (o_heap st)
  end.

Definition union_next (st : opstate) : fres (option item * opstate) :=
  fdo u <- lift (refill_cur st);
  match sh_pop u with
  | None => fret (None, mkop u (o_outs st) None)
  | Some (s, u1) =>
    fdo r <- drain_equal (S (length (heap u1))) u1 (input s) [indexed_value s] 1;
    let '(u2, outs, _) := r in
    fret (Some (input s, outs), mkop u2 outs (Some s))
  end.

(* the branch that refills instead of emitting *)
Definition refill_instead (op : selop) (popped nslots : nat) : bool :=
  match op with
  | OpInter => Nat.ltb popped nslots            (* popped < self.heap.num_slots() *)
  | OpSymdiff => Nat.eqb (Nat.modulo popped 2) 0 (* popped % 2 == 0 *)
  end.

Definition hsize (u : sheap) : nat := (length (heap u) + rtotal (rdrs u))%nat.

Fixpoint sel_loop (op : selop) (n : nat) (u : sheap) (outs : list iv) : fres (option item * opstate) :=
  match n with
  | O => None
  | S n' =>
    match sh_pop u with
    | None => fret (None, mkop u outs None)
    | Some (s, u1) =>
      fdo r <- drain_equal (S (length (heap u1))) u1 (input s) [indexed_value s] 1;
      let '(u2, outs2, popped) := r in
      if refill_instead op popped (num_slots u2)
      then fdo u3 <- lift (refill u2 s); sel_loop op n' u3 outs2
      else fret (Some (input s, outs2), mkop u2 outs2 (Some s))
    end
  end.
Definition sel_next (op : selop) (st : opstate) : fres (option item * opstate) :=
  fdo u <- lift (refill_cur st);
  sel_loop op (S (hsize u)) u (o_outs st).

Definition op_new (ss : list instream) : res opstate :=
  do u <- sh_new ss; Ok (mkop u [] None).

(* ---------- Difference ---------- *)
Record dstate := mkd { d_set : reader; d_key : key; d_heap : sheap; d_outs : list iv }.

(* OpBuilder::difference *)
Definition diff_new (ss : list instream) : res dstate :=
  match swap_remove0 ss with
  | None => Panic
  | Some (first, rest) => do u <- sh_new rest; Ok (mkd (open first) [] u [])
  end.

(* while let Some(slot) = heap.pop_if_le(&key) { if slot.input() == key { unique = false }; refill(slot) } *)
Fixpoint drain_le (fuel : nat) (u : sheap) (k : key) (unique : bool) : fres (sheap * bool) :=
  match fuel with
  | O => None
  | S f =>
    match sh_pop_if_le u k with
    | None => fret (u, unique)
    | Some (s, u1) =>
      let unique' := if key_eqb (input s) k then false else unique in
      fdo u2 <- lift (refill u1 s);
      drain_le f u2 k unique'
    end
  end.

Fixpoint diff_loop (n : nat) (st : dstate) : fres (option item * dstate) :=
  match n with
  | O => None
  | S n' =>
    match poll (d_set st) with                      (* match self.set.next() *)
    | (None, r) => fret (None, mkd r (d_key st) (d_heap st) (d_outs st))
    | (Some (k, v), r) =>
      let outs := [(O, v)] in
      fdo q <- drain_le (S (hsize (d_heap st))) (d_heap st) k true;
      let '(u2, unique) := q in
      let st' := mkd r k u2 outs in
      if unique then fret (Some (k, outs), st') else diff_loop n' st'
    end
  end.
Definition diff_next (st : dstate) : fres (option item * dstate) :=
  diff_loop (S (length (live_of (r_state (d_set st))))) st.

(* ---------- draining an op stream: while let Some(x) = s.next() { v.push(x) } ---------- *)
(* returns the items and the state the stream is left in *)
Fixpoint collect {St : Type} (next : St -> fres (option item * St)) (n : nat) (st : St) : fres (list item * St) :=
  match n with
  | O => None
  | S n' =>
    fdo r <- next st;
    match fst r with
    | None => fret ([], snd r)
    | Some it => fdo q <- collect next n' (snd r); fret (it :: fst q, snd q)
    end
  end.

Definition items_total (ss : list instream) : nat := total (map s_items ss).
Definition op_polls (st : opstate) : list (nat * nat) := polls_of (rdrs (o_heap st)).
(* the first stream, then the others in the order swap_remove(0) leaves them in *)
Definition d_polls (st : dstate) : list (nat * nat) := polls_of (d_set st :: rdrs (d_heap st)).

(* the operations over arbitrary streams: (items emitted, per reader (polls, polls after None)) *)
Definition run_union_on (ss : list instream) : fres (list item * list (nat * nat)) :=
  fdo st <- lift (op_new ss);
  fdo q <- collect union_next (S (items_total ss)) st; fret (fst q, op_polls (snd q)).
Definition run_sel_on (op : selop) (ss : list instream) : fres (list item * list (nat * nat)) :=
  fdo st <- lift (op_new ss);
  fdo q <- collect (sel_next op) (S (items_total ss)) st; fret (fst q, op_polls (snd q)).
Definition run_difference_on (ss : list instream) : fres (list item * list (nat * nat)) :=
  fdo st <- lift (diff_new ss);
  fdo q <- collect diff_next (S (items_total ss)) st; fret (fst q, d_polls (snd q)).

(* the same over well-behaved streams given as lists *)
Definition run_union (ss : list (list kv)) : fres (list item) :=
  fdo q <- run_union_on (map inert ss); fret (fst q).
Definition run_sel (op : selop) (ss : list (list kv)) : fres (list item) :=
  fdo q <- run_sel_on op (map inert ss); fret (fst q).
Definition run_intersection := run_sel OpInter.
Definition run_symdiff := run_sel OpSymdiff.
Definition run_difference (ss : list (list kv)) : fres (list item) :=
  fdo q <- run_difference_on (map inert ss); fret (fst q).

(* ---------- Fst::is_disjoint / is_subset / is_superset ---------- *)
(* self.op().add(stream).intersection().next().is_none() *)
Definition is_disjoint_on (s0 s1 : instream) : fres (bool * list (nat * nat)) :=
  fdo st <- lift (op_new [s0; s1]);
  fdo r <- sel_next OpInter st;
  fret (match fst r with None => true | Some _ => false end, op_polls (snd r)).
(* count the items of the intersection / union; count == self.len() *)
Definition is_subset_on (selflen : N) (s0 s1 : instream) : fres (bool * list (nat * nat)) :=
  fdo q <- run_sel_on OpInter [s0; s1]; fret (N.eqb (N.of_nat (length (fst q))) selflen, snd q).
Definition is_superset_on (selflen : N) (s0 s1 : instream) : fres (bool * list (nat * nat)) :=
  fdo q <- run_union_on [s0; s1]; fret (N.eqb (N.of_nat (length (fst q))) selflen, snd q).
Definition is_disjoint (s0 s1 : list kv) : fres bool :=
  fdo q <- is_disjoint_on (inert s0) (inert s1); fret (fst q).
Definition is_subset (selflen : N) (s0 s1 : list kv) : fres bool :=
  fdo q <- is_subset_on selflen (inert s0) (inert s1); fret (fst q).
Definition is_superset (selflen : N) (s0 s1 : list kv) : fres bool :=
  fdo q <- is_superset_on selflen (inert s0) (inert s1); fret (fst q).
End Model.

(* ---------- executable heaps: leftmost and rightmost least element ---------- *)
Fixpoint pop_min_left (h : list slot) : option (slot * list slot) :=
  match h with
  | [] => None
  | s :: r =>
    match pop_min_left r with
    | None => Some (s, [])
    | Some (m, r') => if slot_leb s m then Some (s, r) else Some (m, s :: r')
    end
  end.
Definition slot_ltb (s t : slot) : bool := negb (slot_leb t s).
Fixpoint pop_min_right (h : list slot) : option (slot * list slot) :=
  match h with
  | [] => None
  | s :: r =>
    match pop_min_right r with
    | None => Some (s, [])
    | Some (m, r') => if slot_ltb s m then Some (s, r) else Some (m, s :: r')
    end
  end.

(* ---------- specification ---------- *)
Fixpoint insert_key (k : key) (l : list key) : list key :=
  match l with
  | [] => [k]
  | x :: r => match lex_cmp k x with
              | Lt => k :: l
              | Eq => l
              | Gt => x :: insert_key k r
              end
  end.
(* sorted, de-duplicated union of the keys of all streams *)
Definition all_keys (ss : list (list kv)) : list key :=
  fold_right insert_key [] (concat (map keys_of ss)).

(* [(i, v) | the i-th stream has (k, v)], in index order *)
Fixpoint outs_from (i : nat) (k : key) (ss : list (list kv)) : list iv :=
  match ss with
  | [] => []
  | s :: r => (match lookup s k with Some v => [(i, v)] | None => [] end) ++ outs_from (S i) k r
  end.
Definition outs_of (k : key) (ss : list (list kv)) : list iv := outs_from O k ss.

Definition spec_union (ss : list (list kv)) : list item :=
  map (fun k => (k, outs_of k ss)) (all_keys ss).
(* which keys an operation keeps, from (number of streams containing it, number of streams) *)
Definition keeps (op : selop) (cnt nstreams : nat) : bool :=
  match op with
  | OpInter => Nat.eqb cnt nstreams
  | OpSymdiff => Nat.odd cnt
  end.
Definition spec_sel (op : selop) (ss : list (list kv)) : list item :=
  filter (fun e => keeps op (length (snd e)) (length ss)) (spec_union ss).
Definition spec_intersection := spec_sel OpInter.
Definition spec_symdiff := spec_sel OpSymdiff.

Definition has_key (k : key) (s : list kv) : bool := existsb (fun e => key_eqb (fst e) k) s.
Definition spec_diff_of (s0 : list kv) (rest : list (list kv)) : list item :=
  map (fun e => (fst e, [(O, snd e)]))
      (filter (fun e => negb (existsb (has_key (fst e)) rest)) s0).
Definition spec_difference (ss : list (list kv)) : list item :=
  match ss with
  | [] => []
  | s0 :: rest => spec_diff_of s0 rest
  end.

(* set theory for the three predicates, as booleans *)
Definition spec_disjoint (s0 s1 : list kv) : bool := forallb (fun e => negb (has_key (fst e) s1)) s0.
Definition spec_subset (s0 s1 : list kv) : bool := forallb (fun e => has_key (fst e) s1) s0.
Definition spec_superset (s0 s1 : list kv) : bool := spec_subset s1 s0.

(* polling discipline, per stream, as (polls made, polls made after it had returned None):
   [full_polls] = read to the end: one poll per item, one for the None, none afterwards;
   [polls_ok] = possibly not read to the end, and never polled after its None *)
Definition full_polls (x : instream) : nat * nat := (S (length (s_items x)), O).
Definition polls_ok (x : instream) (pa : nat * nat) : Prop := (fst pa <= S (length (s_items x)))%nat /\ snd pa = O.
(* a stream that is not inert: polled again after its None it yields one key no input has *)
Definition poison_kv : kv := ([255; 254; 253; 252]%N, 57005%N).
Definition poisoned (l : list kv) : instream :=
  mkinstream l (fun n => match n with O => Some poison_kv | S _ => None end).

Definition streams_ok (ss : list (list kv)) : Prop := Forall (fun s => kmap_ok s = true) ss.

(* two outputs agree: same keys in the same order, and per key the same (index, value) entries
   up to the order in which the heap released ties *)
Definition item_eqv (a b : item) : Prop := fst a = fst b /\ Permutation (snd a) (snd b).
Definition out_eqv (a b : list item) : Prop := Forall2 item_eqv a b.

(* canonical form used by the correspondence: entries sorted by stream index *)
Fixpoint insert_iv (x : iv) (l : list iv) : list iv :=
  match l with
  | [] => [x]
  | y :: r => if Nat.leb (fst x) (fst y) then x :: l else y :: insert_iv x r
  end.
Definition sort_outs (l : list iv) : list iv := fold_right insert_iv [] l.
Definition canon (l : list item) : list item := map (fun e => (fst e, sort_outs (snd e))) l.
