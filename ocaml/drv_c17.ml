(* drv_c17.ml — cases (space separated tokens; byte strings in hex, "-" = empty):
     dfa <q> <d> <limit>            S: built|toomany             M: n=<states> fnv=<digest of dump> | TooManyStates(<limit>)
     dfadump <q> <d> <limit>        S: built|toomany             M: full canonical dump
     match <q> <d> <k>              S: invalid|toomany|1|0       M: v=<0|1>;<state after each byte, "-" = None>
     matchall <q> <d> <maxlen> <c1,c2,..>   keys = all strings of <= maxlen characters over the alphabet, by length then
                                    lexicographic in alphabet order.  S: toomany | one bit per key  M: n=.. fnv=..;<bits>
     search <set|map> <q> <d> <k1,k2,..>    S: keys (and values) the spec selects  M: the model DFA's selection
   S comes from the Coq specification (lev on decoded scalar values), M from the Coq model of the code. *)
let nat_to_int (x : nat) : int = let rec go acc x = match x with O -> acc | S y -> go (acc + 1) y in go 0 x
let same_nat (a : nat) (b : nat) : bool = a == b || a = b
let same_ent (a : nat option) (b : nat option) : bool =
  match a, b with None, None -> true | Some x, Some y -> same_nat x y | _ -> false
(* maximal runs of equal entries: (lo, hi, target) for non-None targets *)
let runs_of (t : nat option list) : (int * int * int) list =
  let out = ref [] in
  let flush lo hi e = match e with Some x -> out := (lo, hi, nat_to_int x) :: !out | None -> () in
  let rec go i lo cur l =
    match l with
    | [] -> if i > 0 then flush lo (i - 1) cur
    | e :: r -> if i > 0 && same_ent e cur then go (i + 1) lo cur r
                else begin (if i > 0 then flush lo (i - 1) cur); go (i + 1) i e r end in
  go 0 0 None t;
  List.rev !out
let dump_dfa (d : state list) : string * int =
  let b = Buffer.create 65536 in
  let n = ref 0 in
  List.iter (fun st ->
      if !n > 0 then Buffer.add_char b ';';
      incr n;
      Buffer.add_char b (if st_match st then '1' else '0');
      Buffer.add_char b '|';
      List.iteri (fun j (lo, hi, t) ->
          if j > 0 then Buffer.add_char b ',';
          Buffer.add_string b (Printf.sprintf "%02x-%02x>%d" lo hi t)) (runs_of (st_next st))) d;
  (Buffer.contents b, !n)
let fnv64 (s : string) : string =
  let h = ref 0xcbf29ce484222325L in
  String.iter (fun c -> h := Int64.mul (Int64.logxor !h (Int64.of_int (Char.code c))) 0x100000001b3L) s;
  Printf.sprintf "%016Lx" !h
let digest d = let (s, n) = dump_dfa d in Printf.sprintf "n=%d fnv=%s" n (fnv64 s)
(* array form of a model DFA, for running many keys *)
let arrays_of (d : state list) : int array array * bool array =
  let tabs = List.map (fun st ->
      let a = Array.make 256 (-1) in
      List.iter (fun (lo, hi, t) -> for b = lo to hi do a.(b) <- t done) (runs_of (st_next st)); a) d in
  (Array.of_list tabs, Array.of_list (List.map st_match d))
let run_arr (tabs, ms) (bytes : int list) : bool =
  let s = ref 0 in
  List.iter (fun b -> if !s >= 0 then s := tabs.(!s).(b)) bytes;
  !s >= 0 && ms.(!s)
let build q d limit = match lev_new_with_limit q (nat_of_int d) limit with
  | Some r -> r
  | None -> failwith "fuel"
let default_limit = n_of_int 10000
let scalars_of_hex h = match utf8_decode (bytes_of_hex h) with Some k -> k | None -> failwith "utf8"
let limit_string l = "TooManyStates(" ^ string_of_n l ^ ")"
let rec all_keys (alpha : 'a list) (maxlen : int) : 'a list list =
  (* by length, then lexicographic in alphabet order *)
  let rec level l = if l = 0 then [[]] else
      let prev = level (l - 1) in
      List.concat_map (fun c -> List.map (fun k -> c :: k) prev) alpha in
  List.concat (List.init (maxlen + 1) level)
let handle (line : string) : string =
  match split_on ' ' line with
  | [("dfa" | "dfadump") as kind; q; d; limit] ->
    let lim = n_of_string limit in
    (match build (scalars_of_hex q) (int_of_string d) lim with
     | Ok dfa -> "S:built\tM:" ^ (if kind = "dfa" then digest dfa else fst (dump_dfa dfa))
     | Err (ETooManyStates l) -> "S:toomany\tM:" ^ limit_string l
     | _ -> "S:PANIC\tM:PANIC")
  | ["match"; q; d; k] ->
    let kb = bytes_of_hex k in
    let qs = scalars_of_hex q in
    let d = int_of_string d in
    (match build qs d default_limit with
     | Ok dfa ->
       let tr = lev_start_trace dfa kb in
       let m = Printf.sprintf "v=%d;%s" (if lev_accepts dfa kb then 1 else 0)
           (String.concat "," (List.map (fun o -> match o with Some i -> string_of_int (nat_to_int i) | None -> "-") tr)) in
       let s = if utf8_valid kb then (if spec_match qs (nat_of_int d) (scalars_of_hex k) then "1" else "0") else "invalid" in
       "S:" ^ s ^ "\tM:" ^ m
     | Err (ETooManyStates l) -> "S:toomany\tM:" ^ limit_string l
     | _ -> "S:PANIC\tM:PANIC")
  | ["matchall"; q; d; maxlen; alpha] ->
    let qs = scalars_of_hex q in
    let d = int_of_string d in
    let alpha = List.map (fun h -> match scalars_of_hex h with [c] -> c | _ -> failwith "alphabet") (split_on ',' alpha) in
    (match build qs d default_limit with
     | Ok dfa ->
       let keys = all_keys alpha (int_of_string maxlen) in
       let arr = arrays_of dfa in
       let dn = nat_of_int d in
       let s = string_of_bits (List.map (fun k -> spec_match qs dn k) keys) in
       let m = string_of_bits (List.map (fun k -> run_arr arr (List.map int_of_n (utf8_bytes k))) keys) in
       "S:" ^ s ^ "\tM:" ^ digest dfa ^ ";" ^ m
     | Err (ETooManyStates l) -> "S:toomany\tM:" ^ limit_string l
     | _ -> "S:PANIC\tM:PANIC")
  | ["search"; kind; q; d; keys] ->
    let qs = scalars_of_hex q in
    let d = int_of_string d in
    let keys = if keys = "" then [] else split_on ',' keys in
    (match build qs d default_limit with
     | Ok dfa ->
       let dn = nat_of_int d in
       let show sel = String.concat "," (List.concat (List.mapi (fun i k ->
           if sel k then [if kind = "map" then k ^ "=" ^ string_of_int i else k] else []) keys)) in
       let s = show (fun k -> spec_match qs dn (scalars_of_hex k)) in
       let m = show (fun k -> lev_accepts dfa (bytes_of_hex k)) in
       "S:" ^ s ^ "\tM:" ^ m
     | Err (ETooManyStates l) -> "S:toomany\tM:" ^ limit_string l
     | _ -> "S:PANIC\tM:PANIC")
  | _ -> "BADCASE"
let () = main_loop handle
