(* drv_c14.ml — cases:
     open_get <n>                              S: allocs=0            M: 0
     trav <kind> <n> <maxkey> <statesz>        S: within              M: Mem.mem_bound_bytes_stream maxkey statesz
     op <op> <shape> <k> <n> <maxkey>          S: within              M: Mem.mem_bound_bytes_ops k maxkey
     flat <kind> <n1> <n2>                     S: flat                M: the allowance of the flatness criterion *)
let handle (line : string) : string =
  match split_on ' ' line with
  | ["open_get"; _] -> "S:allocs=0\tM:0"
  | ["trav"; _; _; mk; sz] -> "S:within\tM:" ^ string_of_n (c14_stream_bound (n_of_string mk) (n_of_string sz))
  | ["op"; _; _; k; _; mk] -> "S:within\tM:" ^ string_of_n (c14_ops_bound (n_of_string k) (n_of_string mk))
  | ["flat"; kind; _; _] -> "S:flat\tM:" ^ (if String.contains kind ':' then "5/4+256" else "256")
  | _ -> "BADCASE"
let () = main_loop handle
