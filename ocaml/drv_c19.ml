(* drv_c19.ml — case: "<mode:set|sum|max|min> <batch> <fd> <threads> <schedseed> <rows-per-file,…> <hexkey:val,…|_>"
   result: "S:<spec content>|verify=ok|sorted_equal=<yes|na>\tM:len=<n>;shape=<g0>/<g1>/…;model=<spec|…>"
   spec content = spec_merge; model = merge_all under a schedule oracle derived from schedseed
   (a Lehmer code per generation, values of a key ascending or descending); shape = inputs per
   union batch per generation. *)
let parse_items (s : string) : (n list * n) list =
  if s = "_" || s = "" then []
  else List.map (fun it ->
      match split_on ':' it with
      | [k; v] -> (bytes_of_hex k, n_of_string v)
      | _ -> failwith "item") (split_on ',' s)
let render (m : (n list * n) list) : string =
  if m = [] then "_" else String.concat "," (List.map (fun (k, v) -> hex_of_bytes k ^ ":" ^ string_of_n v) m)
let codes_of_seed (seed : int) (n : int) : n list list =
  let st = ref (seed * 2654435761 + 12345) in
  let next () = st := (!st * 2862933555777941757 + 3037000493) land max_int; (!st lsr 17) land 0xFFFFF in
  List.init 70 (fun _ -> List.init n (fun _ -> n_of_int (next ())))
let handle (line : string) : string =
  match split_on ' ' line with
  | [mode; bs; fd; th; seed; _split; items] ->
    let mg = (match mode with "set" -> mg_set | "sum" -> mg_sum | "max" -> mg_max | "min" -> mg_min | _ -> failwith "mode") in
    let input = parse_items items in
    let seed = int_of_string seed in
    let orc = oracle_of (codes_of_seed seed (List.length input)) (seed land 1 = 1) in
    let spec = spec_merge mg input in
    let bsn = n_of_string bs and fdn = n_of_string fd in
    let model = (match merge_all mg orc bsn fdn (n_of_string th) input with
        | Returns (Ok m) -> if m = spec then "spec" else render m
        | Returns (Err _) -> "ERR"
        | Returns Panic -> "PANIC"
        | Diverges -> "DIVERGES") in
    let nb = List.length (batcher bsn input) in
    let shape = union_shape (nat_of_int nb) fdn (nat_of_int nb) in
    let shape_s = String.concat "/" (List.map (fun g -> String.concat "," (List.map string_of_n g)) shape) in
    let nodup = List.length (key_set (keys_of input)) = List.length input in
    "S:" ^ render spec ^ "|verify=ok|sorted_equal=" ^ (if nodup then "yes" else "na")
    ^ "\tM:len=" ^ string_of_int (List.length spec) ^ ";shape=" ^ shape_s ^ ";model=" ^ model
  | _ -> "BADCASE"
let () = main_loop handle
