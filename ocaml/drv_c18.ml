(* drv_c18.ml — case: "<aexp tokens>\t<hex w>"; result: "S:<sem bits per prefix>\tM:<flag digit per prefix>" *)
let rec parse_exp (toks : string list) : aexp * string list =
  match toks with
  | "STR" :: h :: r -> (AStr (bytes_of_hex h), r)
  | "SUB" :: h :: r -> (ASubseq (bytes_of_hex h), r)
  | "ALWAYS" :: r -> (AAlways, r)
  | "TAB" :: ncls :: next :: m :: c :: w :: st :: r ->
    let k = int_of_string ncls in
    let t = { t_ncls = nat_of_int k;
              t_cls = List.init 256 (fun b -> nat_of_int (b mod k));
              t_next = List.map nat_of_int (ints_of_csv next);
              t_match = bits_of_string m; t_can = bits_of_string c; t_will = bits_of_string w;
              t_start = nat_of_int (int_of_string st) } in
    (ATable t, r)
  | "SW" :: r -> let (a, r') = parse_exp r in (AStartsWith a, r')
  | "C" :: r -> let (a, r') = parse_exp r in (ACompl a, r')
  | "U" :: r -> let (a, r1) = parse_exp r in let (b, r2) = parse_exp r1 in (AUnion (a, b), r2)
  | "I" :: r -> let (a, r1) = parse_exp r in let (b, r2) = parse_exp r1 in (AInter (a, b), r2)
  | _ -> failwith "aexp"
let rec prefixes_of l = match l with [] -> [[]] | x :: r -> [] :: List.map (fun p -> x :: p) (prefixes_of r)
let handle (line : string) : string =
  match split_on '\t' line with
  | [e; w] ->
    let (exp, _) = parse_exp (split_on ' ' e) in
    let w = bytes_of_hex w in
    let tr = trace_exp exp w in
    let m = String.concat "" (List.map (fun ((a, b), c) ->
        string_of_int ((if a then 4 else 0) + (if b then 2 else 0) + (if c then 1 else 0))) tr) in
    let s = string_of_bits (List.map (fun p -> sem exp p) (prefixes_of w)) in
    "S:" ^ s ^ "\tM:" ^ m
  | _ -> "BADCASE"
let () = main_loop handle
