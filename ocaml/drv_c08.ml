(* drv_c08.ml — cases:
     crc <hexfile>                      S: masked bitwise CRC-32C of all bytes but the last four
     bytes <tag> <hexfile>              S: "verified <masked bitwise CRC of all bytes but the last four>"
     corrupt <hexfile> <pos> <hexbyte>  S: "notok" (C08_corruption_never_certified), after checking the
     burst <hexfile> <pos> <hexbytes>      precondition (the unmodified file opens and verifies) on the model
   M (all families): outcome of the Open.v model on the (modified) file, same text as harness/src/c08.rs *)
let string_of_err (e : err) : string =
  match e with
  | EFormat s -> Printf.sprintf "Format(%s)" (string_of_n s)
  | EVersion (e, g) -> Printf.sprintf "Version(%s,%s)" (string_of_n e) (string_of_n g)
  | _ -> "other"
let outcome (bs : n list) (root : bool) : string =
  match fst_new bs with
  | Panic -> "PANIC"
  | Err e -> "E:" ^ string_of_err e
  | Ok m ->
    let cs = (match m.m_checksum with None -> "none" | Some c -> string_of_n c) in
    let v = (match verify bs m with
        | Ok _ -> "ok"
        | Panic -> "PANIC"
        | Err EChecksumMissing -> "Missing"
        | Err (EChecksumMismatch (e, g)) -> Printf.sprintf "Mismatch(%s,%s)" (string_of_n e) (string_of_n g)
        | Err _ -> "other") in
    Printf.sprintf "O:cs=%s,ty=%s,len=%s,empty=%d,size=%s%s;V:%s" cs (string_of_n (fst_type m))
      (string_of_n (fst_len m)) (if fst_is_empty m then 1 else 0) (string_of_n (fst_size bs))
      (if root then ",root=" ^ string_of_n m.m_root_addr else "") v
let rec take k l = if k <= 0 then [] else match l with [] -> [] | x :: r -> x :: take (k - 1) r
let body_of (bs : n list) : n list = take (List.length bs - 4) bs
let pre_tbl : (string, bool) Hashtbl.t = Hashtbl.create 64
let precondition (h : string) (bs : n list) : bool =
  match Hashtbl.find_opt pre_tbl h with
  | Some b -> b
  | None ->
    let b = (match fst_new bs with Ok m -> (match verify bs m with Ok _ -> true | _ -> false) | _ -> false) in
    Hashtbl.replace pre_tbl h b; b
let rec replace_at (l : n list) (pos : int) (nb : n list) : n list =
  match nb with
  | [] -> l
  | x :: r -> replace_at (set_nth l (nat_of_int pos) x) (pos + 1) r
let handle (line : string) : string =
  match split_on ' ' line with
  | ["crc"; h] ->
    let bs = bytes_of_hex h in
    "S:" ^ string_of_n (spec_masked_crc32c (body_of bs)) ^ "\tM:" ^ outcome bs false
  | ["bytes"; _; h] ->
    let bs = bytes_of_hex h in
    "S:verified " ^ string_of_n (spec_masked_crc32c (body_of bs)) ^ "\tM:" ^ outcome bs false
  | [("corrupt" | "burst"); h; pos; nb] ->
    let bs = bytes_of_hex h in
    if not (precondition h bs) then "S:precondition-failed\tM:-"
    else
      let bs' = replace_at bs (int_of_string pos) (bytes_of_hex nb) in
      "S:notok\tM:" ^ outcome bs' false
  | _ -> "BADCASE"
let () = main_loop handle
