(* drv_c11.ml — case: "kind\tkeys\tprefill\tcap\tscript\tflush\tcalls" (see harness/src/c11.rs).
   S: "err-io" iff the model says the session ends with a call returning Err(Io) (all earlier calls
      Ok, no panic); "finished" iff into_inner is Ok and the sink holds prefill ++ the in-memory
      bytes, was flushed and accepted nothing after its last successful flush.
   M: index of the failing API call and its error kind, then the same details as C07.
   Family "cont\tkind\tkeys\tk=<k>/<W>\tat=..\t<fault>" (caller keeps going after the error):
   S = finished=no whenever the fault is consumed (Writer.cont_spec_finished), M = results of every call and
   of into_inner, sink length and digest according to Writer.run_session_cont. *)
let kind_of_string (s : string) : ioerr =
  match s with
  | "other" -> IoOther
  | "brokenpipe" -> IoBrokenPipe
  | "writezero" -> IoWriteZero
  | "interrupted" -> IoInterrupted
  | _ when String.length s > 1 && s.[0] = 'k' -> IoKind (n_of_int (int_of_string (String.sub s 1 (String.length s - 1))))
  | _ -> failwith "kind"
let string_of_kind (k : ioerr) : string =
  match k with
  | IoOther -> "other" | IoBrokenPipe -> "brokenpipe" | IoWriteZero -> "writezero"
  | IoInterrupted -> "interrupted" | IoKind x -> "k" ^ string_of_n x
let parse_tok (t : string) : resp =
  let rest () = String.sub t 1 (String.length t - 1) in
  match t.[0] with
  | 'a' -> Accept (nat_of_int (int_of_string (rest ())))
  | 'i' -> Interrupted
  | 'z' -> Zero
  | 'f' -> Fail (kind_of_string (rest ()))
  | _ -> failwith "script token"
let parse_script (s : string) : resp list =
  if s = "-" || s = "" then []
  else List.concat (List.map (fun t ->
      match split_on '*' t with
      | [x] -> [parse_tok x]
      | [x; k] -> let r = parse_tok x in List.init (int_of_string k) (fun _ -> r)
      | _ -> failwith "script") (split_on ',' s))
let parse_flush (s : string) : fresp =
  if s = "ok" then FlushOk else FlushFail (kind_of_string (String.sub s 1 (String.length s - 1)))
let parse_call (c : string) : n list list =
  if c = "" then [] else List.map bytes_of_hex (split_on ',' c)
(* all calls; the last one is into_inner *)
let parse_calls (s : string) : n list list list * n list list =
  let cs = List.map parse_call (split_on ';' s) in
  match List.rev cs with
  | fin :: r -> (List.rev r, fin)
  | [] -> failwith "calls"
let status_string (s : unit iores) : string =
  match s with
  | IoOk _ -> "ok" | IoErr k -> "err(" ^ string_of_kind k ^ ")" | IoPanic -> "panic" | IoDiverge -> "diverge"
let is_ok s = match s with IoOk _ -> true | _ -> false
let fnv (l : n list) (upto : int) : int =
  let h = ref 0x811c9dc5 in
  List.iteri (fun i b -> if i < upto then h := ((!h lxor (int_of_n b)) * 16777619) land 0xffffffff) l;
  !h
(* unfl: bytes the sink accepted after its last successful flush, read (like data, wcalls and flushes)
   AFTER a BufWriter has been dropped - as the harness reads ScriptSink.unflushed *)
type run = { rcalls : callres list; rfin : callres option; data : n list; wcalls : int; flushes : int; buffered : n list; unfl : int }
let run_case (cap : string) script fl prefill calls fin : run =
  if cap = "-" then
    let o = x_sink_session script fl prefill calls fin in
    { rcalls = o.o_calls; rfin = o.o_fin; data = o.o_final.s_data; wcalls = int_of_nat o.o_final.s_calls;
      flushes = int_of_nat o.o_final.s_flushes; buffered = []; unfl = int_of_nat o.o_final.s_unflushed }
  else
    let o = x_buf_session (nat_of_int (int_of_string cap)) script fl prefill calls fin in
    (* the harness (or the builder, on an error path) finally drops the BufWriter *)
    let b = x_buf_drop o.o_final in
    let s = b.b_inner in
    { rcalls = o.o_calls; rfin = o.o_fin; data = s.s_data; wcalls = int_of_nat s.s_calls;
      flushes = int_of_nat s.s_flushes; buffered = o.o_final.b_buf; unfl = int_of_nat s.s_unflushed }
(* per call "status:bytes_written"; bytes_written() cannot be observed when the constructor failed *)
let calls_string (r : run) : string =
  String.concat "," (List.mapi (fun i (((st, bw), _), _) ->
      status_string st ^ ":" ^ (if i = 0 && not (is_ok st) then "-" else string_of_n bw)) r.rcalls)
let fin_string (r : run) : string =
  match r.rfin with None -> "none" | Some (((st, _), _), _) -> status_string st
let total_bytes calls fin : int =
  List.fold_left (fun a c -> List.fold_left (fun a ch -> a + List.length ch) a c) 0 (fin :: calls)
let m_common (r : run) npre total : string =
  Printf.sprintf "%s|%s|len=%d|calls=%d|fl=%d|dig=%08x|unfl=%d" (calls_string r) (fin_string r)
    (List.length r.data) r.wcalls r.flushes (fnv r.data (npre + total)) r.unfl
let handle (line : string) : string =
  match split_on '\t' line with
  | ["cont"; _kind; _keys; kw; _at; fault; calls] ->
    (* "k=<k>/<w>": S is the specification (not finished once the fault is consumed); M is the model of
       the caller that keeps going (Writer.run_session_cont): k accepting responses, the fault, then the
       default (accept everything) *)
    (match split_on '/' (String.sub kw 2 (String.length kw - 2)) with
     | [k; w] ->
       let fin_ok = cont_spec_finished (nat_of_int (int_of_string k)) (nat_of_int (int_of_string w)) in
       let (cs, fin) = parse_calls calls in
       let script = List.init (int_of_string k) (fun _ -> Accept (nat_of_int 1000)) @ parse_script fault in
       let o = x_cont_session script FlushOk [] cs fin in
       let sts = String.concat "," (List.map (fun (((st, _), _), _) -> status_string st) o.o_calls) in
       let fs = match o.o_fin with None -> "none" | Some (((st, _), _), _) -> status_string st in
       let data = o.o_final.s_data in
       "S:" ^ (if fin_ok then "finished=yes" else "finished=no") ^
       Printf.sprintf "\tM:%s|%s|len=%d|dig=%08x" sts fs (List.length data) (fnv data (List.length data))
     | _ -> "BADCASE")
  | [_kind; _keys; prefill; cap; script; flush; calls] ->
    let prefill = bytes_of_hex prefill in
    let (cs, fin) = parse_calls calls in
    let r = run_case cap (parse_script script) (parse_flush flush) prefill cs fin in
    let m = x_mem_session cs fin in
    let npre = List.length prefill in
    let total = total_bytes cs fin in
    let all = List.map (fun (((st, _), _), _) -> st) r.rcalls
              @ (match r.rfin with Some (((st, _), _), _) -> [st] | None -> []) in
    let bad = List.exists (fun st -> match st with IoPanic | IoDiverge -> true | _ -> false) all in
    let rec first_err i l = match l with
      | [] -> None
      | IoErr k :: _ -> Some (i, k)
      | _ :: t -> first_err (i + 1) t in
    let fe = first_err 0 all in
    let s =
      if bad then "panic"
      else match fe with
        | Some (i, _) -> if i = List.length all - 1 then "err-io" else "continued-after-error"
        | None ->
          if r.data = prefill @ m.o_final.s_data && r.flushes >= 1 && r.unfl = 0 && r.buffered = [] then "finished"
          else "finished-incomplete" in
    let f = match fe with Some (i, k) -> Printf.sprintf "fail=%d:%s" i (string_of_kind k) | None -> "fail=none" in
    "S:" ^ s ^ "\tM:" ^ f ^ "|" ^ m_common r npre total
  | _ -> "BADCASE"
let () = main_loop handle
