(* drv_c07.ml — case: "kind\tkeys\tprefill\tcap\tscript\tflush\tcalls" (see harness/src/c07.rs).
   S: what the specification says about this run, computed from the model: "equal" iff the scripted
      run leaves prefill ++ (bytes of the all-accepting in-memory run), every call is Ok, the sink was
      flushed and accepted nothing after its last successful flush (WriterProofs.sink_committed), and
      every bytes_written() equals the bytes accepted so far.
   M: per-call status:bytes_written, into_inner status, sink length, write calls consumed,
      successful flushes, digest of the non-checksum bytes, bytes accepted after the last successful
      flush (s_unflushed of the final sink). *)
let kind_of_string (s : string) : ioerr =
  match s with
  | "other" -> IoOther
  | "brokenpipe" -> IoBrokenPipe
  | "writezero" -> IoWriteZero
  | "interrupted" -> IoInterrupted
  | _ when String.length s > 1 && s.[0] = 'k' -> IoKind (n_of_int (int_of_string (String.sub s 1 (String.length s - 1))))
  | _ -> failwith "kind"
let string_of_kind (k : ioerr) : string =
  match k with
  | IoOther -> "other" | IoBrokenPipe -> "brokenpipe" | IoWriteZero -> "writezero"
  | IoInterrupted -> "interrupted" | IoKind x -> "k" ^ string_of_n x
let parse_tok (t : string) : resp =
  let rest () = String.sub t 1 (String.length t - 1) in
  match t.[0] with
  | 'a' -> Accept (nat_of_int (int_of_string (rest ())))
  | 'i' -> Interrupted
  | 'z' -> Zero
  | 'f' -> Fail (kind_of_string (rest ()))
  | _ -> failwith "script token"
let parse_script (s : string) : resp list =
  if s = "-" || s = "" then []
  else List.concat (List.map (fun t ->
      match split_on '*' t with
      | [x] -> [parse_tok x]
      | [x; k] -> let r = parse_tok x in List.init (int_of_string k) (fun _ -> r)
      | _ -> failwith "script") (split_on ',' s))
let parse_flush (s : string) : fresp =
  if s = "ok" then FlushOk else FlushFail (kind_of_string (String.sub s 1 (String.length s - 1)))
let parse_call (c : string) : n list list =
  if c = "" then [] else List.map bytes_of_hex (split_on ',' c)
(* all calls; the last one is into_inner *)
let parse_calls (s : string) : n list list list * n list list =
  let cs = List.map parse_call (split_on ';' s) in
  match List.rev cs with
  | fin :: r -> (List.rev r, fin)
  | [] -> failwith "calls"
let status_string (s : unit iores) : string =
  match s with
  | IoOk _ -> "ok" | IoErr k -> "err(" ^ string_of_kind k ^ ")" | IoPanic -> "panic" | IoDiverge -> "diverge"
let is_ok s = match s with IoOk _ -> true | _ -> false
let fnv (l : n list) (upto : int) : int =
  let h = ref 0x811c9dc5 in
  List.iteri (fun i b -> if i < upto then h := ((!h lxor (int_of_n b)) * 16777619) land 0xffffffff) l;
  !h
(* unfl: bytes the sink accepted after its last successful flush, read (like data, wcalls and flushes)
   AFTER a BufWriter has been dropped - as the harness reads ScriptSink.unflushed *)
type run = { rcalls : callres list; rfin : callres option; data : n list; wcalls : int; flushes : int; buffered : n list; unfl : int }
let run_case (cap : string) script fl prefill calls fin : run =
  if cap = "-" then
    let o = x_sink_session script fl prefill calls fin in
    { rcalls = o.o_calls; rfin = o.o_fin; data = o.o_final.s_data; wcalls = int_of_nat o.o_final.s_calls;
      flushes = int_of_nat o.o_final.s_flushes; buffered = []; unfl = int_of_nat o.o_final.s_unflushed }
  else
    let o = x_buf_session (nat_of_int (int_of_string cap)) script fl prefill calls fin in
    (* the harness (or the builder, on an error path) finally drops the BufWriter *)
    let b = x_buf_drop o.o_final in
    let s = b.b_inner in
    { rcalls = o.o_calls; rfin = o.o_fin; data = s.s_data; wcalls = int_of_nat s.s_calls;
      flushes = int_of_nat s.s_flushes; buffered = o.o_final.b_buf; unfl = int_of_nat s.s_unflushed }
(* per call "status:bytes_written"; bytes_written() cannot be observed when the constructor failed *)
let calls_string (r : run) : string =
  String.concat "," (List.mapi (fun i (((st, bw), _), _) ->
      status_string st ^ ":" ^ (if i = 0 && not (is_ok st) then "-" else string_of_n bw)) r.rcalls)
let fin_string (r : run) : string =
  match r.rfin with None -> "none" | Some (((st, _), _), _) -> status_string st
let total_bytes calls fin : int =
  List.fold_left (fun a c -> List.fold_left (fun a ch -> a + List.length ch) a c) 0 (fin :: calls)
let m_common (r : run) npre total : string =
  Printf.sprintf "%s|%s|len=%d|calls=%d|fl=%d|dig=%08x|unfl=%d" (calls_string r) (fin_string r)
    (List.length r.data) r.wcalls r.flushes (fnv r.data (npre + total)) r.unfl
let handle (line : string) : string =
  match split_on '\t' line with
  | [_kind; _keys; prefill; cap; script; flush; calls] ->
    let prefill = bytes_of_hex prefill in
    let (cs, fin) = parse_calls calls in
    let r = run_case cap (parse_script script) (parse_flush flush) prefill cs fin in
    let m = x_mem_session cs fin in
    let npre = List.length prefill in
    let total = total_bytes cs fin in
    let s =
      if not (List.for_all (fun (((st, _), _), _) -> is_ok st) r.rcalls) then "differs:call-failed"
      else if (match r.rfin with Some (((st, _), _), _) -> not (is_ok st) | None -> true) then "differs:finish-failed"
      else if r.data <> prefill @ m.o_final.s_data then "differs:bytes"
      else if r.flushes < 1 then "differs:not-flushed"
      (* same place and same condition as in harness/src/c07.rs: the sink (after a BufWriter, if any,
         was dropped) accepted bytes after its last successful flush. Bytes that into_inner left in a
         BufWriter's buffer reach the sink only when the BufWriter is dropped, i.e. after the last
         flush, so they are counted here as well (the harness cannot see the buffer any more) *)
      else if r.unfl > 0 then "differs:written-after-the-last-flush"
      else if r.buffered <> [] then "differs:left-in-buffer"
      else if not (List.for_all (fun (((_, bw), _), wa) -> int_of_n bw = int_of_nat wa - npre) r.rcalls) then "differs:bytes_written"
      else "equal" in
    "S:" ^ s ^ "\tM:" ^ m_common r npre total
  | _ -> "BADCASE"
let () = main_loop handle
