(* drv_c20.ml — case: open <hex> <R|N>.  S: "total" (C20_open_total / C20_accessors_total: the model
   never yields Panic; if it did the text would be PANIC).  M: exact outcome of the Open.v model,
   same text as harness/src/c08.rs::outcome; the root address is included when the flag is R. *)
let string_of_err (e : err) : string =
  match e with
  | EFormat s -> Printf.sprintf "Format(%s)" (string_of_n s)
  | EVersion (e, g) -> Printf.sprintf "Version(%s,%s)" (string_of_n e) (string_of_n g)
  | _ -> "other"
let outcome (bs : n list) (root : bool) : bool * string =
  match fst_new bs with
  | Panic -> (false, "PANIC")
  | Err e -> (true, "E:" ^ string_of_err e)
  | Ok m ->
    let cs = (match m.m_checksum with None -> "none" | Some c -> string_of_n c) in
    let (tot, v) = (match verify bs m with
        | Ok _ -> (true, "ok")
        | Panic -> (false, "PANIC")
        | Err EChecksumMissing -> (true, "Missing")
        | Err (EChecksumMismatch (e, g)) -> (true, Printf.sprintf "Mismatch(%s,%s)" (string_of_n e) (string_of_n g))
        | Err _ -> (true, "other")) in
    let same = (fst_as_bytes bs = bs) in
    (tot, Printf.sprintf "O:cs=%s,ty=%s,len=%s,empty=%d,size=%s%s%s;V:%s" cs (string_of_n (fst_type m))
      (string_of_n (fst_len m)) (if fst_is_empty m then 1 else 0) (string_of_n (fst_size bs))
      (if root then ",root=" ^ string_of_n m.m_root_addr else "") (if same then "" else ",as_bytes=DIFFERENT") v)
let handle (line : string) : string =
  match split_on ' ' line with
  | "open" :: h :: rest ->
    let bs = bytes_of_hex h in
    let (tot, m) = outcome bs (rest = ["R"]) in
    if tot then "S:total\tM:" ^ m else "S:PANIC\tM:PANIC"
  | _ -> "BADCASE"
let () = main_loop handle
