(* drv_c05.ml — case: "<op>\t<kinds>\t<streams>"; <op> in union|intersection|symdiff|difference|
   disjoint|subset|superset; <kinds> is for the implementation side only (ignored here);
   <streams> = "." (no stream) or stream|stream|... with stream = "_" (empty) or
   hexkey:val,hexkey:val,... ("-" = the empty key).
   result: "S:<spec>\tM:<model>".  For the four operations S is the specified output with the
   entries of every key sorted by stream index; M is the model's output in emission order with
   every run of equal values sorted by index (the heap's order among equal (key, value) pairs is
   unspecified); M carries "!TIE" if two different admissible heaps disagree after that.
   For the predicates S is the set-theoretic boolean, M the model's.
   The model is run over NON-INERT streams ([poisoned]: polled again after their None they yield the
   key FFFEFDFC, value 57005), like the user streams of the implementation side; M ends in
   "|repoll=<n>", n = the number of polls the model made on streams that had already returned None
   (summed over the streams; the theorems say 0). *)
let parse_stream (s : string) =
  if s = "_" then []
  else List.map (fun e -> match split_on ':' e with
      | [k; v] -> (bytes_of_hex k, n_of_string v)
      | _ -> failwith "item") (split_on ',' s)
let parse_streams (s : string) =
  if s = "." then [] else List.map parse_stream (split_on '|' s)

let show_iv (i, v) = string_of_int (int_of_nat i) ^ ":" ^ string_of_n v
let show_item (k, outs) = hex_of_bytes k ^ "=" ^ String.concat "," (List.map show_iv outs)
let show_items l = if l = [] then "." else String.concat ";" (List.map show_item l)

(* sort every maximal run of equal values by index *)
let tie_canon (outs : (nat * n) list) : (nat * n) list =
  let rec runs acc cur = function
    | [] -> List.rev (match cur with [] -> acc | _ -> List.rev cur :: acc)
    | (i, v) :: r ->
      (match cur with
       | (_, v0) :: _ when string_of_n v0 = string_of_n v -> runs acc ((i, v) :: cur) r
       | [] -> runs acc [(i, v)] r
       | _ -> runs (List.rev cur :: acc) [(i, v)] r) in
  List.concat (List.map (fun g -> List.sort (fun (a, _) (b, _) -> compare (int_of_nat a) (int_of_nat b)) g) (runs [] [] outs))

let show_fres show r =
  match r with
  | None -> "NOFUEL"
  | Some Panic -> "PANIC"
  | Some (Err _) -> "ERR"
  | Some (Ok x) -> show x

let handle (line : string) : string =
  match split_on '\t' line with
  | [op; _kinds; st] ->
    let ss = parse_streams st in
    let xs = List.map poisoned ss in
    let repolls polls = List.fold_left (fun a (_, again) -> a + int_of_nat again) 0 polls in
    let repoll_of r = match r with Some (Ok (_, polls)) -> "|repoll=" ^ string_of_int (repolls polls) | _ -> "" in
    let ops spec run =
      let m1 = run pop_min_left xs and m2 = run pop_min_right xs in
      let sh r = show_fres (fun (l, _) -> show_items (List.map (fun (k, o) -> (k, tie_canon o)) l)) r in
      let a = sh m1 and b = sh m2 in
      let cs r = show_fres (fun (l, _) -> show_items (canon l)) r in
      (* the spec side never panics; a panic of the model is shown on both sides only for the
         contract-less family (difference of no streams) *)
      let s = if op = "difference" && ss = [] then "PANIC" else show_items (spec ss) in
      "S:" ^ s ^ "\tM:" ^ a ^ (if a = b && cs m1 = cs m2 then "" else "!TIE")
      ^ (let r1 = repoll_of m1 and r2 = repoll_of m2 in if r1 = r2 then r1 else r1 ^ "!" ^ r2) in
    let pred spec run =
      (match ss, xs with
       | [s0; s1], [x0; x1] ->
         let b2s b = if b then "true" else "false" in
         let m = run pop_min_left (n_of_int (List.length s0)) x0 x1 in
         "S:" ^ b2s (spec s0 s1) ^ "\tM:" ^ show_fres (fun (b, _) -> b2s b) m ^ repoll_of m
       | _ -> "BADCASE") in
    (match op with
     | "union" -> ops spec_union run_union_on
     | "intersection" -> ops (spec_sel OpInter) (fun p -> run_sel_on p OpInter)
     | "symdiff" -> ops (spec_sel OpSymdiff) (fun p -> run_sel_on p OpSymdiff)
     | "difference" -> ops spec_difference run_difference_on
     | "disjoint" -> pred spec_disjoint (fun p _ x0 x1 -> is_disjoint_on p x0 x1)
     | "subset" -> pred spec_subset is_subset_on
     | "superset" -> pred spec_superset is_superset_on
     | _ -> "BADCASE")
  | _ -> "BADCASE"
let () = main_loop handle
