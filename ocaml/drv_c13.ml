(* drv_c13.ml — cases:
     build <kind> <family> <rows> <cols> <n> <fanout> <keylen> <seed>
     sat   <kind> <family> <rows> <cols> <n1> <n2> <fanout> <keylen> <seed>
   S = what the property says the measurement must show (within / saturated);
   M = Mem.mem_bound_bytes_builder rows cols fanout maxkey, maxkey = keylen for family fix,
       keylen + 1 for the families whose keys extend a counter value by one byte (ext, pfx). *)
let maxkey fam keylen = if fam = "fix" then keylen else keylen + 1
let bound rows cols fan mk =
  string_of_n (c13_bound (n_of_string rows) (n_of_string cols) (n_of_string fan) (n_of_int mk))
let handle (line : string) : string =
  match split_on ' ' line with
  | ["build"; _; fam; rows; cols; _; fan; kl; _] ->
    "S:within\tM:" ^ bound rows cols fan (maxkey fam (int_of_string kl))
  | ["sat"; _; fam; rows; cols; _; _; fan; kl; _] ->
    "S:saturated\tM:" ^ bound rows cols fan (maxkey fam (int_of_string kl))
  | _ -> "BADCASE"
let () = main_loop handle
