(* conv.ml — conversions between OCaml values and the extracted Coq types.
   Textually placed after `open <Group>_model` by tools/build_model.sh, so the
   constructors XI/XO/XH, N0/Npos, O/S refer to that group's extracted types. *)
let rec pos_of_int64 (i : int64) : positive =
  (* i > 0, treated as unsigned *)
  if Int64.equal i 1L then XH
  else
    let rest = Int64.shift_right_logical i 1 in
    if Int64.equal (Int64.logand i 1L) 1L then XI (pos_of_int64 rest) else XO (pos_of_int64 rest)
let n_of_int64 (i : int64) : n = if Int64.equal i 0L then N0 else Npos (pos_of_int64 i)
let n_of_int (i : int) : n = n_of_int64 (Int64.of_int i)
(* decimal string of an unsigned 64-bit value *)
let n_of_string (s : string) : n = n_of_int64 (Int64.of_string ("0u" ^ s))
let rec nat_of_int (i : int) : nat = if i <= 0 then O else S (nat_of_int (i - 1))
let rec int_of_nat (x : nat) : int = match x with O -> 0 | S y -> 1 + int_of_nat y
(* positive -> list of bits, little endian *)
let rec bits_of_pos (p : positive) : bool list =
  match p with XH -> [true] | XO q -> false :: bits_of_pos q | XI q -> true :: bits_of_pos q
let string_of_n (x : n) : string =
  match x with
  | N0 -> "0"
  | Npos p ->
    let bits = bits_of_pos p in
    if List.length bits <= 64 then begin
      let v = ref 0L in
      List.iteri (fun i b -> if b then v := Int64.logor !v (Int64.shift_left 1L i)) bits;
      Printf.sprintf "%Lu" !v
    end else begin
      (* wider than u64: print in hex with a marker; never equal to an implementation value *)
      let arr = Array.of_list bits in
      let nb = Array.length arr in
      let nd = (nb + 3) / 4 in
      let b = Buffer.create (nd + 4) in
      Buffer.add_string b "0xBIG";
      for d = nd - 1 downto 0 do
        let v = ref 0 in
        for k = 3 downto 0 do
          let i = d * 4 + k in
          v := !v * 2 + (if i < nb && arr.(i) then 1 else 0)
        done;
        Buffer.add_char b "0123456789abcdef".[!v]
      done;
      Buffer.contents b
    end
let int_of_n (x : n) : int = match x with N0 -> 0 | Npos _ -> int_of_string (string_of_n x)

let hexval c =
  match c with
  | '0'..'9' -> Char.code c - 48
  | 'a'..'f' -> Char.code c - 87
  | 'A'..'F' -> Char.code c - 55
  | _ -> failwith "hex"
(* "-" denotes the empty byte string *)
let bytes_of_hex (s : string) : n list =
  if s = "-" || s = "" then []
  else
    let l = String.length s / 2 in
    List.init l (fun i -> n_of_int (hexval s.[2 * i] * 16 + hexval s.[2 * i + 1]))
let hex_of_bytes (l : n list) : string =
  if l = [] then "-"
  else begin
    let b = Buffer.create 16 in
    List.iter (fun x -> Buffer.add_string b (Printf.sprintf "%02x" (int_of_n x))) l;
    Buffer.contents b
  end
let split_on c s = String.split_on_char c s
let bits_of_string (s : string) : bool list = List.init (String.length s) (fun i -> s.[i] = '1')
let string_of_bits (l : bool list) : string = String.concat "" (List.map (fun b -> if b then "1" else "0") l)
let ints_of_csv (s : string) : int list = if s = "" || s = "-" then [] else List.map int_of_string (split_on ',' s)
(* main loop: one case per input line, one result per output line *)
let main_loop (f : string -> string) : unit =
  (try
     while true do
       let line = input_line stdin in
       let out = (try f line with e -> "EXN:" ^ Printexc.to_string e) in
       print_string out; print_char '\n'
     done
   with End_of_file -> ());
  flush stdout
