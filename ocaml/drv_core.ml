(* drv_core.ml — builder / reader / spec correspondence for C01 C02 C03 C04 C06 C09 C10 C12 C15 C16.
   case kinds (first token):
     build <sem> <fe> <ty> <rows> <cols> <ops>          sem = calls | extend | fromiter
     build batches <fe> <ty> <rows> <cols> <ops>|<ops>|…   (several extend batches on one builder)
     get <ops> ; <probe hex>*            range <ops> ; <calls>/<calls>/…
     search <ops> ; <aexp tokens> ; ws|nows ; <calls>/…        getkey <ops> ; <value>*
   ops: i:<hexkey>:<val> | a:<hexkey>, comma separated, "_" = none. *)

(* footer checksum: the extracted model of src/raw/crc32.rs (coq/Crc.v, proved equal to the bitwise
   CRC-32C specification in C08) *)
let summer (bs : n list) : n = model_masked_crc32c bs

let parse_ops (s : string) : op list =
  if s = "_" || s = "" then [] else
  List.map (fun t ->
    match split_on ':' t with
    | ["i"; k; v] -> OpInsert (bytes_of_hex k, n_of_string v)
    | ["a"; k] -> OpAdd (bytes_of_hex k)
    | _ -> failwith "op") (split_on ',' s)

let str_res (r : unit res) : string =
  match r with
  | Ok _ -> "ok"
  | Err (EDuplicateKey k) -> "dup:" ^ hex_of_bytes k
  | Err (EOutOfOrder (p, g)) -> "ooo:" ^ hex_of_bytes p ^ ":" ^ hex_of_bytes g
  | Err _ -> "err"
  | Panic -> "PANIC"
let str_kvs (m : (n list * n) list) : string =
  if m = [] then "_" else String.concat "," (List.map (fun (k, v) -> hex_of_bytes k ^ ":" ^ string_of_n v) m)

let default_rows = src_registry_rows
let default_cols = src_registry_cols

let build_bytes (ops : op list) : n list =
  let b = new_builder N0 default_rows default_cols in
  let (b', r) = run_extend b ops in
  match r with
  | Ok _ -> (match b_finish summer b' with Ok bs -> bs | _ -> failwith "model build failed")
  | _ -> failwith "model build rejected ops"

let parse_calls (s : string) : bcall list =
  if s = "none" || s = "" then [] else
  List.map (fun t ->
    match split_on ':' t with
    | ["ge"; k] -> BGe (bytes_of_hex k) | ["gt"; k] -> BGt (bytes_of_hex k)
    | ["le"; k] -> BLe (bytes_of_hex k) | ["lt"; k] -> BLt (bytes_of_hex k)
    | _ -> failwith "bcall") (split_on ' ' s)

let rec parse_exp (toks : string list) : aexp * string list =
  match toks with
  | "STR" :: h :: r -> (AStr (bytes_of_hex h), r)
  | "SUB" :: h :: r -> (ASubseq (bytes_of_hex h), r)
  | "ALWAYS" :: r -> (AAlways, r)
  | "TAB" :: ncls :: next :: m :: c :: w :: st :: r ->
    let k = int_of_string ncls in
    let t = { t_ncls = nat_of_int k; t_cls = List.init 256 (fun b -> nat_of_int (b mod k));
              t_next = List.map nat_of_int (ints_of_csv next);
              t_match = bits_of_string m; t_can = bits_of_string c; t_will = bits_of_string w;
              t_start = nat_of_int (int_of_string st) } in
    (ATable t, r)
  | "SW" :: r -> let (a, r') = parse_exp r in (AStartsWith a, r')
  | "C" :: r -> let (a, r') = parse_exp r in (ACompl a, r')
  | "U" :: r -> let (a, r1) = parse_exp r in let (b, r2) = parse_exp r1 in (AUnion (a, b), r2)
  | "I" :: r -> let (a, r1) = parse_exp r in let (b, r2) = parse_exp r1 in (AInter (a, b), r2)
  | _ -> failwith "aexp"

(* printable automaton state for the leaf automata (search_with_state) *)
let str_state (e : aexp) (s : Obj.t) : string =
  match e with
  | AStr _ -> (match (Obj.magic s : nat option) with Some p -> "S" ^ string_of_int (int_of_nat p) | None -> "N")
  | ASubseq _ | ATable _ -> string_of_int (int_of_nat (Obj.magic s : nat))
  | AAlways -> "u"
  | _ -> "?"

let trim = String.trim
let handle (line : string) : string =
  let sp = String.index line ' ' in
  let kind = String.sub line 0 sp in
  let rest = String.sub line (sp + 1) (String.length line - sp - 1) in
  match kind with
  | "build" ->
    (match split_on ' ' rest with
     | ["batches"; _fe; ty; rows; cols; bstr] ->
       (* several extend calls on one builder: each batch stops at its first rejected item, the builder lives on.
          The composition is done in Coq: Builder.run_batches / batches_written (model) and Fst.spec_batches
          (specification), proofs/BuilderBatches.v; this driver only parses and prints. *)
       let batches = List.map parse_ops (split_on '|' bstr) in
       let b0 = new_builder (n_of_string ty) (n_of_string rows) (n_of_string cols) in
       let (b, _mres) = run_batches b0 batches in
       let bw = String.concat "" (List.map (fun c -> string_of_n c ^ ",") (batches_written b0 batches)) in
       let fin = b_finish_full summer b in
       let mstr = (match fin with Ok (bs, _) -> "bytes=" ^ hex_of_bytes bs | Panic -> "PANIC" | Err _ -> "nofst") in
       let m_out = mstr ^ ";bw=" ^ bw ^ ";st=na" in
       let ((acc, sres), _last) = spec_batches None batches in
       let content = spec_content None acc [] in
       "S:r=" ^ String.concat "," (List.map str_res sres) ^ ";c=" ^ str_kvs content ^ ";len=" ^ string_of_int (List.length content) ^ "\tM:" ^ m_out
     | [sem; fe; ty; rows; cols; ops] ->
       let ops = parse_ops ops in
       let b0 = new_builder (n_of_string ty) (n_of_string rows) (n_of_string cols) in
       let bw = Buffer.create 64 in
       let (b1, results, alive) =
         (match sem with
          | "calls" ->
            (* one call at a time, recording bytes_written after each *)
            let b = ref b0 in
            let rs = List.map (fun o -> let (b', r) = apply_op !b o in b := b';
                                Buffer.add_string bw (string_of_n (b_count b')); Buffer.add_char bw ','; r) ops in
            (!b, rs, true)
          | _ ->
            let (b, r) = run_extend b0 ops in
            if sem <> "fromiter" then Buffer.add_string bw (string_of_n (b_count b));
            (b, [r], (sem = "extend") || (match r with Ok _ -> true | _ -> false))) in
       let fin = if alive then b_finish_full summer b1 else Err EChecksumMissing in
       let mstr = (match fin with
           | Ok (bs, _) -> "bytes=" ^ hex_of_bytes bs
           | Panic -> "PANIC" | Err _ -> "nofst") in
       let (((h, m), e), rj) = (match fin with Ok (_, st) -> st | _ -> b_stats b1) in
       let m_out = mstr ^ ";bw=" ^ (if fe = "all" || fe = "dirty" then "na" else Buffer.contents bw) ^ ";st=" ^ (if fe = "raw" || fe = "raw_loop" then String.concat "," (List.map string_of_n [h; m; e; rj]) else "na") in
       (* spec *)
       let (sres, content) =
         (match sem with
          | "calls" -> (List.map str_res (spec_calls None ops), spec_content None ops [])
          | _ -> let (p, r) = accepted_prefix None ops in ([str_res r], spec_content None p [])) in
       let s_out =
         if alive then "r=" ^ String.concat "," sres ^ ";c=" ^ str_kvs content ^ ";len=" ^ string_of_int (List.length content)
         else "r=" ^ String.concat "," sres ^ ";nofst" in
       "S:" ^ s_out ^ "\tM:" ^ m_out
     | _ -> "BADCASE")
  | "get" ->
    (match split_on ';' rest with
     | [ops; probes] ->
       let ops = parse_ops (trim ops) in
       let content = spec_content None ops [] in
       let bs = build_bytes ops in
       let ps = List.filter (fun x -> x <> "") (split_on ' ' (trim probes)) in
       let s = List.map (fun p -> let k = bytes_of_hex p in
                          match lookup content k with Some v -> string_of_n v ^ "/1" | None -> "~/0") ps in
       let (na, root) = view_of bs in
       let m = List.map (fun p -> let k = bytes_of_hex p in
                          (match fst_get na root k with Ok (Some v) -> string_of_n v | Ok None -> "~" | _ -> "PANIC") ^ "/" ^
                          (match fst_contains na root k with Ok true -> "1" | Ok false -> "0" | _ -> "PANIC")) ps in
       "S:" ^ String.concat "," s ^ "\tM:" ^ String.concat "," m
     | _ -> "BADCASE")
  | "range" ->
    (match split_on ';' rest with
     | [ops; ranges] ->
       let ops = parse_ops (trim ops) in
       let content = spec_content None ops [] in
       let bs = build_bytes ops in
       let rs = List.map (fun r -> parse_calls (trim r)) (split_on '/' (trim ranges)) in
       let s = List.map (fun cs -> str_kvs (spec_range content cs)) rs in
       let (na, root) = view_of bs in
       let m = List.map (fun cs -> match range na root cs with Ok l -> str_kvs l | _ -> "PANIC") rs in
       "S:" ^ String.concat "/" s ^ "\tM:" ^ String.concat "/" m
     | _ -> "BADCASE")
  | "search" ->
    (match split_on ';' rest with
     | [ops; e; ws; ranges] ->
       let ops = parse_ops (trim ops) in
       let content = spec_content None ops [] in
       let bs = build_bytes ops in
       let (exp, _) = parse_exp (split_on ' ' (trim e)) in
       let a = denote exp in
       let ws = (trim ws = "ws") in
       let rs = List.map (fun r -> parse_calls (trim r)) (split_on '/' (trim ranges)) in
       let str_items l = if l = [] then "_" else String.concat "," (List.map (fun ((k, v), st) ->
           hex_of_bytes k ^ ":" ^ string_of_n v ^ (if ws then ":" ^ str_state exp st else "")) l) in
       let s = List.map (fun cs -> str_items (spec_search content a cs)) rs in
       let (na, root) = view_of bs in
       let m = List.map (fun cs -> match search_with_state na root a cs with Ok l -> str_items l | _ -> "PANIC") rs in
       "S:" ^ String.concat "/" s ^ "\tM:" ^ String.concat "/" m
     | _ -> "BADCASE")
  | "getkey" ->
    (match split_on ';' rest with
     | [ops; vals] ->
       let ops = parse_ops (trim ops) in
       let content = spec_content None ops [] in
       let bs = build_bytes ops in
       let vs = List.filter (fun x -> x <> "") (split_on ' ' (trim vals)) in
       let s = List.map (fun v -> match spec_get_key content (n_of_string v) with Some k -> hex_of_bytes k | None -> "~") vs in
       let (na, root) = view_of bs in
       let m = List.map (fun v -> match get_key na root (n_of_string v) with Ok (Some k) -> hex_of_bytes k | Ok None -> "~" | _ -> "PANIC") vs in
       "S:" ^ String.concat "," s ^ "\tM:" ^ String.concat "," m
     | _ -> "BADCASE")
  | "getkeyold" ->
    (* getkeyold <version> <hex bytes> <ops> ; <vals> : get_key of the reader model on a file of an older
       format version (written by the reference encoder); S from the content alone *)
    (match split_on ';' rest with
     | [hd; vals] ->
       (match split_on ' ' (trim hd) with
        | [_v; hexb; ops] ->
          let content = spec_content None (parse_ops ops) [] in
          let bs = bytes_of_hex hexb in
          let vs = List.filter (fun x -> x <> "") (split_on ' ' (trim vals)) in
          let s = List.map (fun v -> match spec_get_key content (n_of_string v) with Some k -> hex_of_bytes k | None -> "~") vs in
          let (na, root) = view_of bs in
          let m = List.map (fun v -> match get_key na root (n_of_string v) with Ok (Some k) -> hex_of_bytes k | Ok None -> "~" | _ -> "PANIC") vs in
          "S:" ^ String.concat "," s ^ "\tM:" ^ String.concat "," m
        | _ -> "BADCASE")
     | _ -> "BADCASE")
  | "fmt" ->
    (* fmt <ty> <rows> <cols> <ops> \t@@\t <implementation line>: the format specification decodes the
       bytes the IMPLEMENTATION wrote (S); the model builder's bytes are compared as M *)
    (match Str.split (Str.regexp_string "\t@@\t") rest with
     | [c; impl] ->
       (match split_on ' ' c with
        | [ty; rows; cols; _cap; ops] ->
          let ops = parse_ops ops in
          let ibytes =
            (try
               let i = Str.search_forward (Str.regexp_string "bytes=") impl 0 in
               let j = (try String.index_from impl i '\t' with Not_found -> String.length impl) in
               Some (bytes_of_hex (String.sub impl (i + 6) (j - i - 6)))
             with Not_found -> None) in
          let s_out = (match ibytes with
              | None -> "NOBYTES"
              | Some bs ->
                (match spec_parse bs with
                 | Some p when wf_fst_b bs ->
                   (* the footer checksum must be the masked CRC-32C of all preceding bytes *)
                   let n = List.length bs in
                   let body = List.filteri (fun i _ -> i < n - 4) bs in
                   let ck = (match p.p_checksum with
                       | Some c -> if string_of_n c = string_of_n (model_masked_crc32c body) then "ok" else "BAD"
                       | None -> "none") in
                   "v=" ^ string_of_n p.p_version ^ ";ty=" ^ string_of_n p.p_ty ^ ";c=" ^ str_kvs p.p_content
                   ^ ";len=" ^ string_of_n p.p_len ^ ";nodes=" ^ string_of_int (List.length p.p_nodes) ^ ";ck=" ^ ck
                 | _ -> "MALFORMED")) in
          let b0 = new_builder (n_of_string ty) (n_of_string rows) (n_of_string cols) in
          let (b1, _) = run_extend b0 ops in
          let m_out = (match b_finish summer b1 with Ok bs -> "bytes=" ^ hex_of_bytes bs | _ -> "PANIC") in
          "S:" ^ s_out ^ "\tM:" ^ m_out
        | _ -> "BADCASE")
     | _ -> "BADCASE")
  | "old" ->
    (* old <version> <hex bytes> <ops> ; <probes> ; <calls>/… : reader model on a file of an older version *)
    (match split_on ';' rest with
     | [hd; probes; ranges] ->
       (match split_on ' ' (trim hd) with
        | [_v; hexb; ops] ->
          let bs = bytes_of_hex hexb in
          let content = spec_content None (parse_ops ops) [] in
          let ps = List.filter (fun x -> x <> "") (split_on ' ' (trim probes)) in
          let rs = List.map (fun r -> parse_calls (trim r)) (split_on '/' (trim ranges)) in
          let s = "c=" ^ str_kvs content ^ ";len=" ^ string_of_int (List.length content) ^ ";g=" ^
                  String.concat "," (List.map (fun p -> match lookup content (bytes_of_hex p) with Some v -> string_of_n v | None -> "~") ps) ^ ";r=" ^
                  String.concat "/" (List.map (fun cs -> str_kvs (spec_range content cs)) rs) in
          let m = "c=" ^ (match api_stream bs with Ok l -> str_kvs l | _ -> "PANIC") ^ ";len=" ^ string_of_n (api_len bs) ^ ";g=" ^
                  String.concat "," (List.map (fun p -> match api_get bs (bytes_of_hex p) with Ok (Some v) -> string_of_n v | Ok None -> "~" | _ -> "PANIC") ps) ^ ";r=" ^
                  String.concat "/" (List.map (fun cs -> match api_range bs cs with Ok l -> str_kvs l | _ -> "PANIC") rs) in
          "S:" ^ s ^ "\tM:" ^ m
        | _ -> "BADCASE")
     | _ -> "BADCASE")
  | "openclass" ->
    (match split_on ' ' rest with
     | [l; v] -> let c = int_of_n (spec_open_class (n_of_string l) (n_of_string v)) in
       let s = List.nth ["ok"; "version"; "format"; "version-or-format"; "ok-or-format"] c in
       "S:" ^ s ^ "\tM:" ^ s
     | _ -> "BADCASE")
  | "encode" ->
    (* encode <version> <ops>: reference encoder of an older format version (used by the C10 generator) *)
    (match split_on ' ' rest with
     | [v; ops] ->
       let kvs = List.map (fun o -> match o with OpInsert (k, x) -> (k, x) | OpAdd k -> (k, N0)) (parse_ops ops) in
       (match build_map_v summer (n_of_string v) N0 kvs with Ok bs -> hex_of_bytes bs | _ -> "FAIL")
     | _ -> "BADCASE")
  | _ -> "BADKIND"
let () = main_loop handle
