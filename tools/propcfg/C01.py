CFG = {
    "group": "core",
    "level": "proof",
    "coq_targets": ["Properties/C01.vo", 'ParamsTie.vo'],
    "partial": "C01_map_round_trip chains builder -> format specification -> reader for every key list, value assignment and cache geometry; C01_build_set covers sets with repeated keys. The four byte-level statements of CodecSpec.v (what compile_node writes parses back; Node::new = the specification on parsed nodes) are premises BY NAME of these theorems until proofs/NodeProofs*.v is merged; two side conditions on the produced file (every element is a byte; traversal fuel 2*tree_size+2 <= 2^64) are premises too and are being discharged (builder output is trimmed). Until then those links are covered by the correspondence: implementation bytes = model bytes, and the format specification decodes the implementation's bytes (C09).",
    "correspondence": "bytes written by fst::raw::Builder / MapBuilder / SetBuilder / from_iter / extend_iter / extend_stream = FstV.Builder.b_finish byte for byte (per front end, per cache geometry via hook H1), bytes_written trace, cache counters (hook H2); stream/len/is_empty of the implementation = content specified by FstV.Fst.spec_content",
    "rule": "key sets: every subset of the 7 strings of length <= 2 over {a,b}, {00,FF}, {a,FF} x value patterns (zero, index, reversed, power of 256, boundary mix, ...) x front ends x geometries {(10000,2),(1,1),(1,2),(2,2),(3,3),(0,0),(7,4)}; boundary families (fan-out 0,1,2,3,31..34,63..65,127,128,255,256 at root / depth 1 / with tails; keys of length 1..1000; suffix families); random key sets up to 300 keys; sets with repeated keys; non-trivial = at least two operations",
    "modelled": ["src/raw/build.rs", "src/raw/node.rs (compile side)", "src/raw/registry.rs", "src/bytes.rs", "front ends of src/map.rs and src/set.rs as call sequences"],
    "assumptions": ["usize arithmetic unbounded in the model: file length < 2^64", "the sink accepts every write (sink behaviour is C07/C11)"],
}
