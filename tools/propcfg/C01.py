CFG = {
    "coq_crosscheck": ['build'], "coq_crosscheck_n": 100,
    "group": "core",
    "level": "proof",
    "coq_targets": ["Properties/C01.vo", 'ParamsTie.vo'],
    "partial": "C01_map_round_trip / C01_set_round_trip / C01_build_ops are closed theorems (no premise left): for every strictly increasing key list (sets: non-decreasing), every value assignment < 2^64, every type, every cache geometry incl. 0x0 and ones that evict on every insert, the builder model returns bytes whose enumeration by the reader model is exactly the input, len = number of distinct keys, is_empty = (len = 0). What is NOT a theorem: that the Gallina models equal the Rust code (checked by the correspondence: bytes, bytes_written trace and cache counters equal on every case), the front ends of map.rs/set.rs (modelled as call sequences; the harness checks that they produce the same bytes), usize = unbounded N under the explicit bound size_ok.",
    "correspondence": "bytes written by fst::raw::Builder / MapBuilder / SetBuilder / from_iter / extend_iter / extend_stream = FstV.Builder.b_finish byte for byte (per front end, per cache geometry via hook H1), bytes_written trace, cache counters (hook H2); stream/len/is_empty of the implementation = content specified by FstV.Fst.spec_content",
    "rule": "key sets: every subset of the 7 strings of length <= 2 over {a,b}, {00,FF}, {a,FF} x value patterns (zero, index, reversed, power of 256, boundary mix, ...) x front ends x geometries {(10000,2),(1,1),(1,2),(2,2),(3,3),(0,0),(7,4)}; boundary families (fan-out 0,1,2,3,31..34,63..65,127,128,255,256 at root / depth 1 / with tails; keys of length 1..1000; suffix families); random key sets up to 300 keys; sets with repeated keys; non-trivial = at least two operations",
    "modelled": ["src/raw/build.rs", "src/raw/node.rs (compile side)", "src/raw/registry.rs", "src/bytes.rs", "front ends of src/map.rs and src/set.rs as call sequences"],
    "assumptions": ["usize arithmetic unbounded in the model: file length < 2^64", "the sink accepts every write (sink behaviour is C07/C11)"],
}
