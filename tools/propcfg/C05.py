CFG = {
    "coq_crosscheck": ["c05"], "coq_crosscheck_n": 100,
        "group": "c05",
        "level": "proof",
        "coq_targets": ["Properties/C05.vo"],
        "correspondence": "output of fst::raw::{Union,Intersection,Difference,SymmetricDifference} (also through fst::map::OpBuilder and fst::set::OpBuilder) and of Fst::{is_disjoint,is_subset,is_superset} = FstV.Ops.run_union / run_sel / run_difference / is_disjoint / is_subset / is_superset with an executable heap",
        "rule": "k-tuples of strictly increasing key/value streams: every k-tuple (k = 1..3 quick, ..4 thorough) of subsets of the universe {'', a, ab, b} with values from {0,1,2}; every pair of valued subsets of {'', a, ab}; random tuples, k <= 6, <= 40 keys per stream drawn from an 85-key pool (so keys collide), values up to 2^64-2, with identical and empty streams mixed in; k identical streams; k empty streams; no stream; each under union, intersection, symmetric_difference, difference. Every stream is realised as a whole FST, a ge/le range of a larger FST, a search with an exact-set automaton over a larger FST, or a user Streamer over a Vec, through the raw, Map or Set (values 0) OpBuilder; predicates on all 256 pairs of subsets x 4 stream kinds and random pairs. non-trivial = at least two streams, not all empty. S = emitted (key, entries sorted by stream index) vs Coq spec_union/spec_sel/spec_difference (predicates: the boolean vs set theory); M = entries in emission order with runs of equal values sorted by index vs the extracted model run with a leftmost-minimum heap (and cross-checked against a rightmost-minimum heap); X = the chosen API/stream kinds agree with the baseline (raw API, whole FSTs). difference of no streams is outside the contract: PANIC expected on both sides.",
        "modelled": ["src/raw/ops.rs (OpBuilder::{union,intersection,difference,symmetric_difference}, StreamHeap, Slot, the four Streamer impls)",
                     "src/raw/mod.rs Fst::{is_disjoint,is_subset,is_superset}",
                     "src/map.rs and src/set.rs OpBuilder wrappers (StreamOutput / StreamZeroOutput) are only tested, not modelled: they forward to raw::OpBuilder"],
        "assumptions": ["std BinaryHeap<Slot>: pop returns a greatest element under Slot::cmp (= a least (input, output)) and leaves the other elements; peek shows the element pop would return; which of several equal elements comes out is unspecified (the theorems quantify over every such heap)",
                        "input streams yield strictly increasing keys and, once exhausted, keep returning None (lists in the model)",
                        "is_subset/is_superset: Fst::len() (footer metadata) equals the number of keys of self"],
    }
