CFG = {
    "coq_crosscheck": ["c18"], "coq_crosscheck_n": 100,
        "group": "c18",
        "level": "proof",
        "coq_targets": ["Properties/C18.vo"],
        "correspondence": "flags (is_match, can_match, will_always_match) of fst::automaton::{Str,Subsequence,AlwaysMatch,StartsWith,Union,Intersection,Complement} after every prefix = FstV.Automaton.trace_exp",
        "rule": "expressions: every leaf (Str/Subsequence over 9 patterns, AlwaysMatch, every 1- and 2-state 2-class table DFA with every sound hint assignment, sampled 3-state) alone and under unary combinators, plus random compositions of depth 1..3; each run on strings over {a,b,z} (all of length 5 for leaves, sampled otherwise) with flags observed after every prefix; non-trivial = has at least one combinator and a non-empty string; S = is_match per prefix vs Coq language semantics `sem`, M = hint bits vs model, X = brute-force soundness of the implementation's hints over all continuations of length <= 3",
        "modelled": ["src/automaton/mod.rs (all of it except the blanket impl for &T, which only forwards)"],
        "assumptions": ["Subsequence::accept indexes subseq[state]: proved in-bounds for every state reachable from start (C18_subseq_index_safe)"],
    }
