CFG = {
    "group": "c08",
    "level": "proof",
    "coq_targets": ["Properties/C08.vo", 'ParamsTie.vo'],
    "correspondence": "outcome of fst::raw::Fst::new + len/is_empty/size/fst_type/as_bytes + verify() (error kind and payload, stored and computed checksum) = FstV.Open.fst_new/verify over FstV.Crc.crc32c_slice16 with the tables of build.rs; the CRC the implementation computes (read off ChecksumMismatch{got}) and the footer of built FSTs = masked bitwise CRC-32C FstV.Crc.spec_masked_crc32c",
    "rule": "four families. crc: a version-3 wrapper (non-zero root address, checksum field 0) around arbitrary content so that verify() exposes the implementation's CRC as ChecksumMismatch{got}; every checksummed length 32..320 (all residues mod 16, 2..20 fast-path blocks) x {random, all 0x00, all 0xFF} plus boundary and random lengths up to 4096; S = got vs masked bitwise CRC of all bytes but the last four. bytes: FSTs built from random sorted key/value lists (0..120 keys, alphabets 2/3/26/256, boundary values) by raw::Builder into memory, into a sink accepting 1..8/15/16/17/64 bytes per call with periodic Interrupted, through a BufWriter, and by MapBuilder/SetBuilder; S = (verify() is Ok, last four bytes LE) vs ('verified', masked bitwise CRC of the preceding bytes). corrupt: every position x all 255 other values of the 3 smallest built FSTs (<= 64 bytes), every position x {bit flip, +1, random; header/footer positions also 0,1,2,3,4,0xFF} of larger ones; burst: 2..4 consecutive bytes replaced, a quarter of them in the last 10 bytes; S = OK/notok after checking on both sides that the unmodified file opens and verifies, spec says notok. M = exact outcome text (error kind + payload) on the modified file. Non-trivial = everything but wrappers with an empty body; distinct = distinct case lines.",
    "modelled": [
        "build.rs: make_table, make_table16 (row-by-row instead of column-by-column; proved equal to the bitwise definition entry by entry)",
        "src/raw/crc32.rs (all)",
        "src/bytes.rs: read_u32_le, read_u64_le, io_write_u32_le (as u32_to_le)",
        "src/raw/mod.rs: Fst::new, Fst::verify, len, is_empty, size, fst_type, as_bytes, struct Meta",
        "src/raw/counting_writer.rs: only the checksum state (summer_feed = one update per accepted chunk); src/raw/build.rs: only the last step of into_inner (writer_finish)",
    ],
    "assumptions": [
        "64-bit target: u64_to_usize is the identity cast",
        "bytes are < 256 and CRC register values < 2^32: explicit hypotheses of the theorems (the model works on N)",
        "usize additions are modelled with overflow checks (harness profile); the one addition in Fst::new is only evaluated with root_addr = 0",
        "C08_writer_footer_verifies covers the CountingWriter + footer step for any body; that the builder emits a body which opens (header, nodes, len, root address) is the builder model's theorem (C01/C09), here it is only exercised by the 'bytes' family",
    ],
    "partial": "Proved for all inputs: slice16 = bitwise CRC, chunking independence, mask injectivity, single-byte and 4-byte-window detection, writer footer verifies, single-byte corruption never certified (10 theorems, all closed). Not a theorem: 'every FST produced by a builder passes verify()' needs the builder model (not part of this group) - covered here by C08_writer_footer_verifies for arbitrary bodies plus the differential 'bytes' family; bursts that straddle the body/checksum boundary or lie inside the checksum are tested, not proved (a crafted burst there can forge a valid file; a random one does with probability 2^-32). CRC lengths 0..31 and multi-chunk updates with a non-zero running value >= 16 bytes are not reachable through the public API (verify() hashes >= 32 bytes in one update; builder writes are short): they are covered by the theorems only.",
}
