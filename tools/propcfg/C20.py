CFG = {
    "coq_crosscheck": ["c20"], "coq_crosscheck_n": 100,
    "group": "c20",
    "level": "proof",
    "coq_targets": ["Properties/C20.vo", 'ParamsTie.vo'],
    "correspondence": "outcome of fst::raw::Fst::new on arbitrary bytes (Format{size} / Version{expected,got} / Ok) and, when it opens, len, is_empty, size, fst_type, as_bytes, the stored checksum, root address (when root() returns) and the result of verify() with payload = FstV.Open.fst_new / verify / accessors",
    "rule": "open <hex>: (1) for every length 0..64: version in {0,1,2,3,4,u64::MAX} x root address in {0,1,len-22..len-16,len,len+1,u64::MAX,u64::MAX-20,u64::MAX-16} x key-count field in {0,1,u64::MAX}, written in both footer layouts, over zero and random filler; (2) random strings of length 0..200 with the version field biased to 0..4 and the root field biased to 0 / near len; (3) built FSTs as they are, every truncation, every position with 4 replacement values, version rewritten to 1 and 2 with and without the last four bytes. All calls under catch_unwind: S = 'total' if open returned and (if Ok) len/is_empty/size/fst_type/as_bytes/verify all returned, else PANIC; M = exact outcome text. The root address is compared only where root().addr() returns (flag R in the case, decided at generation time; decoding the root node of garbage may panic and is not a metadata accessor). Non-trivial = at least 32 bytes (passes the first length check); distinct = distinct case lines.",
    "modelled": [
        "src/raw/mod.rs: Fst::new, Fst::verify, len, is_empty, size, fst_type, as_bytes, struct Meta, u64_to_usize (64-bit)",
        "src/bytes.rs: read_u32_le, read_u64_le (panic on short slices)",
        "src/raw/crc32.rs via FstV.Crc (verify)",
    ],
    "assumptions": [
        "64-bit target: u64_to_usize is the identity cast (on 32-bit targets it panics by design for large addresses)",
        "slice/index/subtraction/addition are the only panic sources in the modelled functions (no allocation in Fst::new/verify; checked against the source by the correspondence run under catch_unwind)",
    ],
    "partial": "The totality clauses are theorems about the model (C20_open_total, C20_accessors_total, C20_gate_total; no hypothesis on the input) tied to the code by the differential run. The clause 'the library contains no unsafe code' is NOT a theorem: it is established on every run by (1) a token scan of /repo/src/**/*.rs outside comments, doc comments, strings and char literals for the keyword `unsafe`, and (2) `cargo rustc --offline -p fst --lib --features levenshtein -- -F unsafe_code` succeeding; both are reported under measurements and fail the check when false. It covers the library crate only (not dependencies, not fst-bin, which uses memmap). 'At worst a panic or a wrong answer later' is the language guarantee for safe Rust, taken as given.",
}
