#!/usr/bin/env python3
"""srcfun_tie.py — regenerate coq/Generated/SrcFuns.v (tools/rustfun.py), compile coq/SrcFunTie.v and decide
what a failing tie lemma means.

  every lemma proves                     -> {"tied": [...], "fallback_to_pinned": [...]}
  lemma L about function f fails         -> translated f and the model expression of L are evaluated inside Coq
                                            (vm_compute) on a directed sample: all bytes, 0, 1, 2^k-1, 2^k, 2^k+1
                                            (k = 1..64), the edges of the hypotheses, products of these, plus
                                            pseudo-random tuples;
      an input with different values     -> "broken": [{lemma, functions, input, src_value, model_value}]:
                                            the model no longer describes the code (tools/check treats it like a
                                            failed proof obligation);
      no such input                      -> "unproved_no_difference": [f]; no alarm.
  In both cases f falls back to the pinned translation for this run so that everything else still compiles.
  A function outside the translatable subset, or not located: pinned text, listed, no alarm.

Usage from tools/check: run(repo, root, log) -> dict.   Stand-alone: srcfun_tie.py <repo> [--selftest]
(--selftest runs the sampler on EVERY lemma of the unchanged tree and expects no difference)."""
import json, os, random, re, subprocess, sys, time

HERE = os.path.dirname(os.path.abspath(__file__))
ROOT = os.path.dirname(HERE)
sys.path.insert(0, HERE)
import rustfun  # noqa: E402

TIE_FILES = ["SrcFunTie.v", "SrcFunTie2.v"]
# ADVISORY lemmas: the function is a PRIVATE CONVENTION that may legitimately be re-chosen together with its callers
# (nothing in the file format, the public API or the specification fixes it).  When such a lemma stops proving --
# differing input or not -- nothing alarms: the function falls back to its pinned text for this run and the evidence
# records `srcfun_tie_advisory_differs`.  Every other lemma is BINDING.  (tools/FRAMEWORK.md lists the classification.)
ADVISORY = {"tie_Slot_partial_cmp", "tie_Slot_cmp", "tie_Slot_cmp_leb",
            "tie_Bound_exceeded_by", "tie_Bound_is_empty", "tie_Bound_is_inclusive"}
CONSTS = {"P64": 1 << 64, "P56": 1 << 56, "P32": 1 << 32}
BUDGET = 250000
NRANDOM = 4000


def sh(cmd, cwd=None, timeout=None):
    try:
        p = subprocess.run(cmd, cwd=cwd, timeout=timeout, stdout=subprocess.PIPE, stderr=subprocess.STDOUT, text=True, errors="replace")
        return p.returncode, p.stdout
    except subprocess.TimeoutExpired as ex:
        return 124, (ex.stdout if isinstance(ex.stdout, str) else "") + "\ntimeout"


# ------------------------------------------------------------------ reading SrcFunTie.v
def strip_comments(txt):
    out, depth, i = [], 0, 0
    while i < len(txt):
        if txt.startswith("(*", i):
            depth += 1
            i += 2
        elif txt.startswith("*)", i) and depth:
            depth -= 1
            i += 2
        else:
            out.append(txt[i] if depth == 0 or txt[i] == "\n" else " ")
            i += 1
    return "".join(out)


def split_top(s, sep):
    """split s at top-level occurrences of sep (outside parentheses, and outside if/match ... constructs)"""
    parts, depth, cur, i = [], 0, [], 0
    while i < len(s):
        if s[i] in "([{":
            depth += 1
        elif s[i] in ")]}":
            depth -= 1
        if depth == 0 and s.startswith(sep, i):
            parts.append("".join(cur))
            cur = []
            i += len(sep)
            continue
        cur.append(s[i])
        i += 1
    parts.append("".join(cur))
    return parts


def parse_lemmas(path):
    """-> (preamble text, [lemma dict]) ; lemma: name, line0, line1, binders [(name, type)], hyps [text], lhs, rhs, fns"""
    raw = open(path).read()
    txt = strip_comments(raw)
    lines = txt.split("\n")
    marker = raw.find("(* ==== TIES ==== *)")
    pre_end_line = raw[:marker].count("\n") if marker >= 0 else 0
    lemmas = []
    for m in re.finditer(r"^Lemma (tie_\w+)\s*:(.*?)\.\s*\nProof\.", txt, re.S | re.M):
        name, stmt = m.group(1), " ".join(m.group(2).split())
        line0 = txt[:m.start()].count("\n") + 1
        q = txt.find("Qed.", m.end())
        line1 = txt[:q].count("\n") + 1
        binders = []
        body = stmt
        if stmt.startswith("forall"):
            i, groups = len("forall"), []
            while i < len(stmt) and stmt[i] != ",":
                if stmt[i] == "(":
                    d, j = 0, i
                    while True:
                        if stmt[j] == "(":
                            d += 1
                        elif stmt[j] == ")":
                            d -= 1
                            if d == 0:
                                break
                        j += 1
                    groups.append(stmt[i + 1:j])
                    i = j + 1
                else:
                    i += 1
            for grp in groups:
                ns, ty = grp.split(":", 1)
                for n in ns.split():
                    binders.append((n, ty.strip()))
            body = stmt[i + 1:].strip()
        parts = [p.strip() for p in split_top(body, "->")]
        hyps, concl = parts[:-1], parts[-1]
        eq = split_top(concl, " = ")
        lhs, rhs = eq[0].strip(), " = ".join(eq[1:]).strip()
        fns = sorted(set(re.findall(r"\bsrc_fn_\w+", stmt)))
        lemmas.append(dict(name=name, line0=line0, line1=line1, binders=binders, hyps=hyps, lhs=lhs, rhs=rhs, fns=fns, stmt=stmt))
    preamble = "\n".join(raw.split("\n")[:pre_end_line])
    return preamble, lemmas


def const_val(s):
    s = s.strip()
    if s in CONSTS:
        return CONSTS[s]
    if re.fullmatch(r"\d+", s):
        return int(s)
    m = re.fullmatch(r"2\s*\^\s*(\d+)", s)
    if m:
        return 1 << int(m.group(1))
    return None


def hyp_bool(h):
    if h.endswith(" = true"):
        return "(%s)" % h[:-7]
    for op, b in ((" <= ", "<=?"), (" < ", "<?"), (" <> ", None), (" = ", "=?")):
        p = split_top(h, op)
        if len(p) == 2:
            if b is None:
                return "negb (%s =? %s)" % (p[0], p[1])
            return "(%s %s %s)" % (p[0].strip(), b, p[1].strip())
    raise ValueError("hypothesis not understood: " + h)


def bounds(name, hyps):
    lo, hi = 0, (1 << 64) - 1
    for h in hyps:
        m = re.fullmatch(r"(\w+) < (.+)", h)
        if m and m.group(1) == name and const_val(m.group(2)) is not None:
            hi = min(hi, const_val(m.group(2)) - 1)
        m = re.fullmatch(r"(\w+) <= (.+)", h)
        if m and m.group(1) == name and const_val(m.group(2)) is not None:
            hi = min(hi, const_val(m.group(2)))
        m = re.fullmatch(r"(.+) <= (\w+)", h)
        if m and m.group(2) == name and const_val(m.group(1)) is not None:
            lo = max(lo, const_val(m.group(1)))
    return lo, hi


def candidates(lo, hi, nargs):
    """candidate values of one argument, MOST IMPORTANT FIRST (thinning keeps a prefix)"""
    if hi - lo < 256:
        first = [lo, lo + 1, hi, hi - 1, 63, 64, 65, 127, 128, 129, 191, 192, 193, 15, 16, 17, 31, 32, 33, 2, 3, 8, 9, 7, 240, 239, 241]
        seen, res = set(), []
        for x in first + list(range(lo, hi + 1)):
            if lo <= x <= hi and x not in seen:
                seen.add(x)
                res.append(x)
        return res
    out = [lo, lo + 1, hi, hi - 1, hi - 2, 0, 1, 2, 3]
    ks = [8, 16, 32, 64, 56, 24, 40, 48, 5, 6, 7, 4] + [k for k in range(1, 65) if k not in (8, 16, 32, 64, 56, 24, 40, 48, 5, 6, 7, 4)]
    for k in ks:
        out += [(1 << k), (1 << k) - 1, (1 << k) + 1]
    out += list(range(4, 65)) + list(range(65, 256))
    seen, res = set(), []
    for x in out:
        if lo <= x <= hi and x not in seen:
            seen.add(x)
            res.append(x)
    return res


def thin(vals, n):
    """keep the n most important values (candidates() lists them in order of importance)"""
    return vals[:max(1, n)]


def rand_value(rng, lo, hi):
    if hi - lo < 256:
        return rng.randint(lo, hi)
    for _ in range(20):
        bits = rng.randint(1, 64)
        v = rng.getrandbits(bits)
        if lo <= v <= hi:
            return v
    return rng.randint(lo, hi)


BYTE_LISTS = None
SMALL_LISTS = [False]


def byte_lists():
    """empty, singletons, all-00, all-FF, prefixes of each other, equal lists, differing at the first / last
    position, lengths 0..9 and 15..17"""
    global BYTE_LISTS
    if BYTE_LISTS is None:
        ls = [[], [0], [255], [1], [97], [98], [0, 0], [255, 255], [97, 98], [97, 99], [98, 98], [97, 0], [0, 97], [97, 255],
              [97, 98, 99], [97, 98, 100], [96, 98, 99], [97, 98, 99, 100], [1, 2, 3, 4, 5, 6, 7], [1, 2, 3, 4, 5, 6, 7, 8],
              [255] * 8, [0] * 8, [1, 2, 3, 4, 5, 6, 7, 8, 9], [255] * 9, [128, 1, 0, 255, 7]]
        for n in (3, 4, 5, 6, 7, 15, 16, 17):
            ls.append([0] * n)
            ls.append([255] * n)
            ls.append([(17 * i + 3) % 256 for i in range(n)])
        # strings as lists of scalar values: 2-, 3-, 4-byte characters and mixtures (after the byte strings)
        ls += [[233], [0x20AC], [0x1F600], [97, 233, 0x20AC, 0x1F600], [233, 233], [0x20AC, 98]]
        ls.append([(17 * i + 3) % 256 for i in range(15)] + [9])         # differs from the 16-list at the last position
        ls.append([4] + [(17 * i + 3) % 256 for i in range(1, 16)])        # ... at the first position
        seen, out = set(), []
        for l in ls:
            if tuple(l) not in seen:
                seen.add(tuple(l))
                out.append(l)
        BYTE_LISTS = out
    return BYTE_LISTS


def ty_parse(s):
    """Coq type text -> ('prod', [..]) | ('app', head, [args])"""
    toks = re.findall(r"[A-Za-z_][A-Za-z0-9_.']*|[()*]", s)
    pos = [0]
    def atom():
        t = toks[pos[0]]
        pos[0] += 1
        if t == "(":
            r = prod()
            pos[0] += 1
            return r
        return ("app", t, [])
    def app():
        h = atom()
        args = []
        while pos[0] < len(toks) and toks[pos[0]] not in (")", "*"):
            args.append(atom())
        if args and h[0] == "app":
            return ("app", h[1], h[2] + args)
        return h
    def prod():
        items = [app()]
        while pos[0] < len(toks) and toks[pos[0]] == "*":
            pos[0] += 1
            items.append(app())
        return items[0] if len(items) == 1 else ("prod", items)
    return prod()


def ty_text(t):
    if t[0] == "prod":
        return "(" + " * ".join(ty_text(x) for x in t[1]) + ")"
    return t[1] if not t[2] else "(%s %s)" % (t[1], " ".join(ty_text(x) for x in t[2]))


def inductives(root):
    """inductive types of the generated file: name -> (params, [(ctor, [arg type text])])"""
    out = {}
    try:
        txt = open(os.path.join(root, "coq", "Generated", "SrcFuns.v")).read()
    except OSError:
        return out
    for m in re.finditer(r"^Inductive (\w+)((?: \([^()]*\))*) : Type :=\n((?:  \|[^\n]*\n?)+)", txt, re.M):
        params = [x.split(":")[0].strip() for x in re.findall(r"\(([^()]*)\)", m.group(2))]
        ctors = []
        for line in m.group(3).split("\n"):
            line = line.strip().rstrip(".")
            if not line.startswith("|"):
                continue
            cm = re.match(r"\|\s*(\w+)(.*)$", line)
            args = [a.split(":", 1)[1].strip() for a in re.findall(r"\((x\d+ : [^()]*(?:\([^()]*\)[^()]*)*)\)", cm.group(2))]
            ctors.append((cm.group(1), args))
        out[m.group(1)] = (params, ctors)
    return out


def cand_expr(t, nums, inds):
    """Coq expression of type list <t> with the directed sample of that type, and its size; nums() gives the N sample"""
    if t[0] == "prod":
        e, n = cand_expr(t[1][0], nums, inds)
        for x in t[1][1:]:
            e2, n2 = cand_expr(x, nums, inds)
            e, n = "(list_prod %s %s)" % (e, e2), n * n2
        return e, n
    h, args = t[1], t[2]
    if h == "N":
        c = nums()
        return "[%s]" % "; ".join(str(x) for x in c), len(c)
    if h == "bool":
        return "[true; false]", 2
    if h == "unit":
        return "[tt]", 1
    if h == "nat":
        return "[0; 1; 2; 3; 4; 5; 8; 9; 17]%nat", 9
    if h == "comparison":
        return "[Eq; Lt; Gt]", 3
    if h == "list" and args and args[0] == ("app", "N", []):
        if SMALL_LISTS[0]:
            return "sf_lists_s", 14
        return "sf_lists", len(byte_lists())
    if h in ("key",):
        return "sf_lists", len(byte_lists())
    if h == "option":
        e, n = cand_expr(args[0], nums, inds)
        return "(None :: map Some %s)" % e, n + 1
    if h in ("St", "src_St"):
        return "sf_states", 8
    if h in inds:
        params, ctors = inds[h]
        ptxt = [ty_text(a) for a in args]
        parts, total = [], 0
        for c, atys in ctors:
            head = " ".join([c] + ptxt)
            if not atys:
                parts.append("[%s]" % head)
                total += 1
                continue
            sub = []
            for at in atys:
                for pn, pv in zip(params, ptxt):
                    at = re.sub(r"\b%s\b" % re.escape(pn), pv, at)
                sub.append(cand_expr(ty_parse(at), nums, inds))
            if len(sub) == 1:
                parts.append("(map (fun x => %s x) %s)" % (head, sub[0][0]))
                total += sub[0][1]
            elif len(sub) == 2:
                parts.append("(map (fun x => %s (fst x) (snd x)) (list_prod %s %s))" % (head, sub[0][0], sub[1][0]))
                total += sub[0][1] * sub[1][1]
            else:
                raise ValueError("constructor %s with %d arguments" % (c, len(sub)))
        return "(" + " ++ ".join(parts) + ")", total
    raise ValueError("no sample generator for the type " + ty_text(t))


SAMPLE_AUTOMATA = [
    "{| St := N; start := 5; is_match := fun s => N.testbit s 0; can_match := fun s => N.testbit s 1; will_always_match := fun s => N.testbit s 2; accept := fun s b => (s * 3 + b + 1) mod 8; accept_eof := fun _ => None |}",
    "{| St := N; start := 2; is_match := fun s => N.testbit s 2; can_match := fun s => N.testbit s 0; will_always_match := fun s => N.testbit s 1; accept := fun s b => (s * 5 + 2 * b + 3) mod 8; accept_eof := fun _ => None |}",
]


def sample_file(preamble, lem, seed=1, root=ROOT):
    """Coq text that searches the directed sample for an input on which lhs and rhs of the lemma differ"""
    rng = random.Random(seed)
    inds = inductives(root)
    out = [preamble, "", "Unset Default Timeout.",
           "Fixpoint sf_find {A B} (l : list A) (f : A -> option B) : option B :=",
           "  match l with [] => None | x :: r => match f x with Some y => Some y | None => sf_find r f end end.",
           "Definition sf_orelse {A} (a b : option A) : option A := match a with Some x => Some x | None => b end.",
           "Definition sf_states : list N := [0; 1; 2; 3; 4; 5; 6; 7].",
           "Definition sf_lists : list (list N) := [%s]." % "; ".join("[%s]" % "; ".join(str(x) for x in l) for l in byte_lists()),
           "Definition sf_lists_s : list (list N) := firstn 14 sf_lists."]
    # component automata are fixed sample automata whose three predicates differ on every state
    bs = []
    nauts = 0
    for n, ty in lem["binders"]:
        if ty == "automaton":
            out.append("Definition %s : automaton := %s." % (n, SAMPLE_AUTOMATA[nauts % len(SAMPLE_AUTOMATA)]))
            nauts += 1
        else:
            bs.append((n, ty))
    names = [n for n, _ in bs]
    if not bs:
        out.append("Definition sf_bad : bool := negb (sf_eqb (%s) (%s))." % (lem["lhs"], lem["rhs"]))
        out.append("Eval vm_compute in (if sf_bad then Some tt else None).")
        out.append("Eval vm_compute in (%s)." % lem["lhs"])
        out.append("Eval vm_compute in (%s)." % lem["rhs"])
        return "\n".join(out) + "\n", []
    # a statement that converts to unary nat cannot be evaluated on huge numbers
    cap = 300 if re.search(r"to_nat|onat|mkL", lem["stmt"]) else (1 << 64) - 1
    nsets = {}
    for n, ty in bs:
        if ty == "N":
            lo, hi = bounds(n, lem["hyps"])
            hi = min(hi, cap)
            nsets[n] = (candidates(lo, hi, len(bs)), (lo, hi))
    full = {n: list(c) for n, (c, _) in nsets.items()}
    generic = thin(candidates(0, cap, 3), 40)
    def build():
        cs = []
        for n, ty in bs:
            cs.append(cand_expr(ty_parse(ty), (lambda n=n: nsets[n][0] if n in nsets else generic), inds))
        return cs
    SMALL_LISTS[0] = False
    cs = build()
    def prod(cs):
        p = 1
        for _, k in cs:
            p *= k
        return p
    while prod(cs) > BUDGET and nsets:
        n = max(nsets, key=lambda k: len(nsets[k][0]))
        if len(nsets[n][0]) <= 6:
            break
        nsets[n] = (thin(nsets[n][0], max(6, int(len(nsets[n][0]) * 0.7))), nsets[n][1])
        cs = build()
    if prod(cs) > BUDGET:
        SMALL_LISTS[0] = True
        cs = build()
    args = " ".join("(%s : %s)" % (n, t) for n, t in bs)
    dom = " && ".join(hyp_bool(h) for h in lem["hyps"]) or "true"
    tup = "(" + ", ".join(names) + ")" if len(names) > 1 else names[0]
    tupty = " * ".join("(%s)" % t for _, t in bs)
    out.append("Definition sf_lhs %s := %s." % (args, lem["lhs"]))
    out.append("Definition sf_rhs %s := %s." % (args, lem["rhs"]))
    out.append("Definition sf_bad %s : bool := (%s) && negb (sf_eqb (sf_lhs %s) (sf_rhs %s))." % (args, dom, " ".join(names), " ".join(names)))
    for (n, t), (e, _) in zip(bs, cs):
        out.append("Definition sf_c_%s : list (%s) := %s." % (n, t, e))
    inner = "(if sf_bad %s then Some %s else None)" % (" ".join(names), tup)
    for n, t in reversed(bs):
        inner = "(sf_find sf_c_%s (fun %s => %s))" % (n, n, inner)
    out.append("Definition sf_search : option (%s) := %s." % (tupty, inner))
    pat = ("'" + tup) if len(names) > 1 else names[0]
    if all(t in ("N", "bool") for _, t in bs):
        rnd = []
        for _ in range(NRANDOM if len(bs) < 3 else 5 * NRANDOM):
            row = []
            for n, t in bs:
                if t == "bool":
                    row.append(rng.choice(["true", "false"]))
                elif rng.random() < 0.6:
                    row.append(str(rng.choice(full[n])))
                else:
                    row.append(str(rand_value(rng, nsets[n][1][0], nsets[n][1][1])))
            rnd.append("(" + ", ".join(row) + ")" if len(row) > 1 else row[0])
        out.append("Definition sf_rnd : list (%s) := [%s]." % (tupty, "; ".join(rnd)))
        out.append("Definition sf_search_rnd : option (%s) := sf_find sf_rnd (fun %s => if sf_bad %s then Some %s else None)." % (tupty, pat, " ".join(names), tup))
        out.append("Definition sf_found : option (%s) := sf_orelse sf_search sf_search_rnd." % tupty)
    else:
        out.append("Definition sf_found : option (%s) := sf_search." % tupty)
    out.append("Eval vm_compute in sf_found.")
    out.append("Eval vm_compute in (option_map (fun %s => sf_lhs %s) sf_found)." % (pat, " ".join(names)))
    out.append("Eval vm_compute in (option_map (fun %s => sf_rhs %s) sf_found)." % (pat, " ".join(names)))
    return "\n".join(out) + "\n", [k for _, k in cs]


def run_sample(root, preamble, lem, tag, log):
    coq = os.path.join(root, "coq")
    d = os.path.join(coq, "cases")
    os.makedirs(d, exist_ok=True)
    base = "SrcFunSample_%s_%s" % (tag, lem["name"])
    path = os.path.join(d, base + ".v")
    try:
        txt, sizes = sample_file(preamble, lem, root=root)
    except (ValueError, IndexError, KeyError) as ex:
        return {"error": "no sample: %s" % ex}
    open(path, "w").write(txt)
    t0 = time.time()
    rc, out = sh(["coqc", "-Q", ".", "FstV", "-w", "none", os.path.join("cases", base + ".v")], cwd=coq, timeout=600)
    log.write("== sample %s rc=%d %.1fs sets=%s\n%s\n" % (lem["name"], rc, time.time() - t0, sizes, out[-1500:]))
    if not os.environ.get("KEEP"):
        for ext in (".v", ".vo", ".glob", ".vok", ".vos"):
            try:
                os.remove(os.path.join(d, base + ext))
            except OSError:
                pass
        try:
            os.remove(os.path.join(d, "." + base + ".aux"))
        except OSError:
            pass
    if rc != 0:
        return {"error": out[-800:]}
    vals = [" ".join(x.split()) for x in re.findall(r"^\s*= (.*?)\n\s*: ", out, re.S | re.M)]
    if len(vals) < 3:
        return {"error": "unexpected coqc output: " + out[-400:]}
    found = vals[-3]
    if found.startswith("None"):
        return {"found": None, "searched": sizes}
    inp = re.sub(r"^Some\s*", "", found).strip()
    free = [n for n, t in lem["binders"] if t != "automaton"]
    nums = re.findall(r"\d+|true|false|tt", inp)
    simple = all(t in ("N", "bool") for n, t in lem["binders"] if t != "automaton")
    return {"found": (dict(zip(free, nums)) if simple else {"(%s)" % ", ".join(free): inp}) if free else {},
            "src_value": re.sub(r"^Some\s*", "", vals[-2]), "model_value": re.sub(r"^Some\s*", "", vals[-1]), "searched": sizes}


# ------------------------------------------------------------------ main loop
def signature(text):
    """parameter types, and the names of the parameters that are fields of self, of a generated definition"""
    head = text.split(":=", 1)[0]
    groups = re.findall(r"\(([^():]*) : ([^()]*(?:\([^()]*\)[^()]*)*)\)", head)
    tys, fields = [], []
    for ns, ty in groups:
        for n in ns.split():
            tys.append(ty.strip())
            if n.startswith("self_") and n != "self_":
                fields.append(n)
    return tys, fields


def changed_functions(order_texts, pinned):
    return set(n for n, t in order_texts.items() if n not in pinned or pinned[n][1].strip() != t.strip())


def closure(fns, texts):
    seen, todo = set(), list(fns)
    while todo:
        f = todo.pop()
        if f in seen or f not in texts:
            continue
        seen.add(f)
        todo += rustfun.deps_of(texts[f], list(texts))
    return seen


def run(repo, root, log, tag=None):
    tag = tag or str(os.getpid())
    coq = os.path.join(root, "coq")
    out_v = os.path.join(coq, "Generated", "SrcFuns.v")
    tie_files = [os.path.join(coq, f) for f in TIE_FILES if os.path.exists(os.path.join(coq, f))]
    res = {"advisory_differs": [], "not_comparable": [], "translated": [], "tied_by_proof": [], "fallback_to_pinned": [], "unproved_no_difference": [], "broken": [],
           "untranslatable": {}, "rounds": 0, "ok": True, "detail": ""}
    pinned, _ = rustfun.split_pinned(open(rustfun.PINNED_PATH).read())
    use_pinned = {}
    lemmas = []
    for tf in tie_files:
        pre_, ls_ = parse_lemmas(tf)
        for l in ls_:
            l["file"], l["preamble"] = os.path.basename(tf), pre_
        lemmas += ls_
    t_start = time.time()
    # decisions of an earlier run on exactly the same source text, tie file and pinned fragments are reused, so a
    # rewritten function costs its rebuild + sampling once, not on every check
    import hashlib
    cache_path = os.path.join(coq, "Generated", "srcfun_decisions.json")
    txt0 = rustfun.generate(repo, root, {})[0]
    key = hashlib.sha256((txt0 + "\0" + "".join(open(tf).read() for tf in tie_files) + "\0" + open(rustfun.PINNED_PATH).read()).encode()).hexdigest()
    cached = None
    try:
        c = json.load(open(cache_path))
        if c.get("key") == key:
            cached = c
    except (OSError, ValueError):
        pass
    if cached:
        use_pinned = dict(cached["use_pinned"])
        for k in ("unproved_no_difference", "broken", "not_comparable", "advisory_differs"):
            res[k] = cached["res"].get(k, [])
        res["reused_decisions"] = True
    for rnd in range(12):
        res["rounds"] = rnd + 1
        txt, report, order, texts = rustfun.generate(repo, root, use_pinned)
        os.makedirs(os.path.dirname(out_v), exist_ok=True)
        if not os.path.exists(out_v) or open(out_v).read() != txt:
            open(out_v, "w").write(txt)
        json.dump(report, open(os.path.join(coq, "Generated", "srcfuns_report.json"), "w"), indent=1)
        if rnd == 0:
            for o, fns in report.get("restructured", {}).items():
                res["not_comparable"].append({"lemma": None, "functions": fns, "detail": "the fields of struct %s changed" % o})
        if rnd == 0:
            sh([os.path.join(root, "tools", "mkproject.sh")])      # a fresh clone: SrcFuns.v has just appeared
        if rnd == 0:
            for n, f in report["functions"].items():
                if f["status"] == "fallback_to_pinned" and f["target"]:
                    res["untranslatable"][n] = f["reason"]
        t0 = time.time()
        rc, out = sh(["make", "-j4"] + [f + "o" for f in TIE_FILES], cwd=coq, timeout=900)
        log.write("== srcfun round %d: make SrcFunTie*.vo rc=%d %.1fs\n%s\n" % (rnd, rc, time.time() - t0, out[-1500:] if rc else ""))
        if rc == 0:
            break
        m = re.search(r'File "\./([^"]+)", line (\d+)[^\n]*\n(Error:[\s\S]{0,400})', out)
        if not m:
            res.update(ok=False, detail="make SrcFunTie.vo failed: " + out[-600:])
            break
        fname, line, err = m.group(1), int(m.group(2)), m.group(3).strip()
        changed = changed_functions(texts, pinned) - set(use_pinned)
        if fname.endswith("Generated/SrcFuns.v"):
            # the translation itself does not typecheck: the function defined around that line falls back
            defs = [(mm.start(), mm.group(1)) for mm in re.finditer(r"^Definition (src_fn_\w+)", txt, re.M)]
            pos = sum(len(l) + 1 for l in txt.split("\n")[:line - 1])
            cur = [n for s, n in defs if s <= pos]
            f = cur[-1] if cur else None
            if f is None or f not in changed or f not in pinned:
                res.update(ok=False, detail="Generated/SrcFuns.v line %d: %s" % (line, err))
                break
            use_pinned[f] = "its translation does not typecheck (%s)" % err.split("\n")[0][:120]
            res["unproved_no_difference"].append(f)
            continue
        if os.path.basename(fname) not in TIE_FILES:
            res.update(ok=False, detail="%s line %d: %s" % (fname, line, err))
            break
        lem = [l for l in lemmas if l["file"] == os.path.basename(fname) and l["line0"] <= line <= l["line1"]]
        if not lem:
            res.update(ok=False, detail="%s line %d (outside the tie lemmas): %s" % (fname, line, err))
            break
        lem = lem[0]
        blame = sorted(closure(lem["fns"], texts) & changed & set(pinned))
        if not blame:
            res.update(ok=False, detail="SrcFunTie.v lemma %s fails although every function it mentions has its pinned text: %s" % (lem["name"], err))
            break
        resig = [f for f in blame if signature(texts[f]) != signature(pinned[f][1])]
        if resig:
            # the data the function works on is represented differently (other fields of self, other parameter
            # types): its values cannot be compared with the model argument by argument
            res["not_comparable"].append({"lemma": lem["name"], "functions": blame, "detail": "signature of %s changed: %s -> %s" % (
                resig[0], signature(pinned[resig[0]][1]), signature(texts[resig[0]]))})
            for f in blame:
                use_pinned[f] = "signature changed (representation of the data); tie lemma %s not applicable" % lem["name"]
            continue
        s = run_sample(root, lem["preamble"], lem, tag, log)
        if lem["name"] in ADVISORY:
            if s.get("found") is not None and not s.get("error"):
                res["advisory_differs"].append({"lemma": lem["name"], "file": lem["file"], "functions": blame, "input": s["found"],
                                                "src_value": s["src_value"], "model_value": s["model_value"]})
            else:
                res["unproved_no_difference"] += [f for f in blame if f not in res["unproved_no_difference"]]
            for f in blame:
                use_pinned[f] = "advisory tie lemma %s does not hold for the current translation (a private convention)" % lem["name"]
            continue
        if s.get("error"):
            # the two sides cannot be evaluated against each other (a changed signature or type, e.g. an enum turned
            # into a struct): nothing to compare, no alarm; the differential run still compares model and code
            res["not_comparable"].append({"lemma": lem["name"], "functions": blame, "detail": s["error"][-300:]})
        elif s["found"] is None:
            res["unproved_no_difference"] += [f for f in blame if f not in res["unproved_no_difference"]]
        else:
            res["broken"].append({"lemma": lem["name"], "file": lem["file"], "functions": blame, "input": s["found"], "src_value": s["src_value"],
                                  "model_value": s["model_value"], "statement": lem["stmt"], "proof_error": err[:300]})
        for f in blame:
            use_pinned[f] = "tie lemma %s not proved for the current translation" % lem["name"]
    else:
        res.update(ok=False, detail="tie lemmas still failing after 12 rounds")
    res["fallback_to_pinned"] = sorted(set(list(use_pinned) + list(res["untranslatable"])))
    res["translated"] = [n for n in report["translated"]]
    mentioned = set(f for l in lemmas for f in l["fns"])
    res["tied_by_proof"] = [n for n in report["translated"] if report["functions"][n]["target"] and n in mentioned] if res["ok"] else []
    res["translated_not_tied"] = [n for n in report["translated"] if report["functions"][n]["target"] and n not in mentioned]
    res["seconds"] = round(time.time() - t_start, 2)
    if res["ok"] and not cached:
        try:
            json.dump({"key": key, "use_pinned": use_pinned, "res": {k: res[k] for k in ("unproved_no_difference", "broken", "not_comparable", "advisory_differs")}}, open(cache_path, "w"))
        except OSError:
            pass
    return res


def selftest(repo, root, only=None):
    """run the sampler on every lemma of the present tree: no difference may be reported"""
    bad = 0

    class L:
        def write(self, s):
            pass
    for tf in TIE_FILES:
        preamble, lemmas = parse_lemmas(os.path.join(root, "coq", tf))
        for lem in lemmas:
            if only and only not in lem["name"]:
                continue
            t0 = time.time()
            s = run_sample(root, preamble, lem, "self", L())
            ok = s.get("found", 1) is None
            bad += 0 if ok else 1
            print("%-48s %s %s %.1fs" % (lem["name"], "no difference" if ok else "PROBLEM", s.get("searched") if ok else s, time.time() - t0))
            sys.stdout.flush()
    return bad


if __name__ == "__main__":
    repo = sys.argv[1] if len(sys.argv) > 1 and not sys.argv[1].startswith("--") else os.environ.get("VERIF_REPO", "/repo")
    if "--selftest" in sys.argv:
        only = [a.split("=", 1)[1] for a in sys.argv if a.startswith("--only=")]
        sys.exit(1 if selftest(repo, ROOT, only[0] if only else None) else 0)
    r = run(repo, ROOT, sys.stdout)
    print(json.dumps(r, indent=1))
