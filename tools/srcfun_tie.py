#!/usr/bin/env python3
"""srcfun_tie.py — regenerate coq/Generated/SrcFuns.v (tools/rustfun.py), compile coq/SrcFunTie.v and decide
what a failing tie lemma means.

  every lemma proves                     -> {"tied": [...], "fallback_to_pinned": [...]}
  lemma L about function f fails         -> translated f and the model expression of L are evaluated inside Coq
                                            (vm_compute) on a directed sample: all bytes, 0, 1, 2^k-1, 2^k, 2^k+1
                                            (k = 1..64), the edges of the hypotheses, products of these, plus
                                            pseudo-random tuples;
      an input with different values     -> "broken": [{lemma, functions, input, src_value, model_value}]:
                                            the model no longer describes the code (tools/check treats it like a
                                            failed proof obligation);
      no such input                      -> "unproved_no_difference": [f]; no alarm.
  In both cases f falls back to the pinned translation for this run so that everything else still compiles.
  A function outside the translatable subset, or not located: pinned text, listed, no alarm.

Usage from tools/check: run(repo, root, log) -> dict.   Stand-alone: srcfun_tie.py <repo> [--selftest]
(--selftest runs the sampler on EVERY lemma of the unchanged tree and expects no difference)."""
import json, os, random, re, subprocess, sys, time

HERE = os.path.dirname(os.path.abspath(__file__))
ROOT = os.path.dirname(HERE)
sys.path.insert(0, HERE)
import rustfun  # noqa: E402

CONSTS = {"P64": 1 << 64, "P56": 1 << 56, "P32": 1 << 32}
BUDGET = 250000
NRANDOM = 4000


def sh(cmd, cwd=None, timeout=None):
    try:
        p = subprocess.run(cmd, cwd=cwd, timeout=timeout, stdout=subprocess.PIPE, stderr=subprocess.STDOUT, text=True, errors="replace")
        return p.returncode, p.stdout
    except subprocess.TimeoutExpired as ex:
        return 124, (ex.stdout if isinstance(ex.stdout, str) else "") + "\ntimeout"


# ------------------------------------------------------------------ reading SrcFunTie.v
def strip_comments(txt):
    out, depth, i = [], 0, 0
    while i < len(txt):
        if txt.startswith("(*", i):
            depth += 1
            i += 2
        elif txt.startswith("*)", i) and depth:
            depth -= 1
            i += 2
        else:
            out.append(txt[i] if depth == 0 or txt[i] == "\n" else " ")
            i += 1
    return "".join(out)


def split_top(s, sep):
    """split s at top-level occurrences of sep (outside parentheses, and outside if/match ... constructs)"""
    parts, depth, cur, i = [], 0, [], 0
    while i < len(s):
        if s[i] in "([{":
            depth += 1
        elif s[i] in ")]}":
            depth -= 1
        if depth == 0 and s.startswith(sep, i):
            parts.append("".join(cur))
            cur = []
            i += len(sep)
            continue
        cur.append(s[i])
        i += 1
    parts.append("".join(cur))
    return parts


def parse_lemmas(path):
    """-> (preamble text, [lemma dict]) ; lemma: name, line0, line1, binders [(name, type)], hyps [text], lhs, rhs, fns"""
    raw = open(path).read()
    txt = strip_comments(raw)
    lines = txt.split("\n")
    marker = raw.find("(* ==== TIES ==== *)")
    pre_end_line = raw[:marker].count("\n") if marker >= 0 else 0
    lemmas = []
    for m in re.finditer(r"^Lemma (tie_\w+)\s*:(.*?)\.\s*\nProof\.", txt, re.S | re.M):
        name, stmt = m.group(1), " ".join(m.group(2).split())
        line0 = txt[:m.start()].count("\n") + 1
        q = txt.find("Qed.", m.end())
        line1 = txt[:q].count("\n") + 1
        binders = []
        body = stmt
        fm = re.match(r"forall\s+((?:\([^()]*\)\s*)+),\s*(.*)$", stmt)
        if fm:
            for grp in re.findall(r"\(([^()]*)\)", fm.group(1)):
                ns, ty = grp.split(":")
                for n in ns.split():
                    binders.append((n, ty.strip()))
            body = fm.group(2)
        parts = [p.strip() for p in split_top(body, "->")]
        hyps, concl = parts[:-1], parts[-1]
        eq = split_top(concl, " = ")
        lhs, rhs = eq[0].strip(), " = ".join(eq[1:]).strip()
        fns = sorted(set(re.findall(r"\bsrc_fn_\w+", stmt)))
        lemmas.append(dict(name=name, line0=line0, line1=line1, binders=binders, hyps=hyps, lhs=lhs, rhs=rhs, fns=fns, stmt=stmt))
    preamble = "\n".join(raw.split("\n")[:pre_end_line])
    return preamble, lemmas


def const_val(s):
    s = s.strip()
    if s in CONSTS:
        return CONSTS[s]
    if re.fullmatch(r"\d+", s):
        return int(s)
    m = re.fullmatch(r"2\s*\^\s*(\d+)", s)
    if m:
        return 1 << int(m.group(1))
    return None


def hyp_bool(h):
    for op, b in ((" <= ", "<=?"), (" < ", "<?"), (" <> ", None), (" = ", "=?")):
        p = split_top(h, op)
        if len(p) == 2:
            if b is None:
                return "negb (%s =? %s)" % (p[0], p[1])
            return "(%s %s %s)" % (p[0].strip(), b, p[1].strip())
    raise ValueError("hypothesis not understood: " + h)


def bounds(name, hyps):
    lo, hi = 0, (1 << 64) - 1
    for h in hyps:
        m = re.fullmatch(r"(\w+) < (.+)", h)
        if m and m.group(1) == name and const_val(m.group(2)) is not None:
            hi = min(hi, const_val(m.group(2)) - 1)
        m = re.fullmatch(r"(\w+) <= (.+)", h)
        if m and m.group(1) == name and const_val(m.group(2)) is not None:
            hi = min(hi, const_val(m.group(2)))
        m = re.fullmatch(r"(.+) <= (\w+)", h)
        if m and m.group(2) == name and const_val(m.group(1)) is not None:
            lo = max(lo, const_val(m.group(1)))
    return lo, hi


def candidates(lo, hi, nargs):
    """candidate values of one argument, MOST IMPORTANT FIRST (thinning keeps a prefix)"""
    if hi - lo < 256:
        first = [lo, lo + 1, hi, hi - 1, 63, 64, 65, 127, 128, 129, 191, 192, 193, 15, 16, 17, 31, 32, 33, 2, 3, 8, 9, 7, 240, 239, 241]
        seen, res = set(), []
        for x in first + list(range(lo, hi + 1)):
            if lo <= x <= hi and x not in seen:
                seen.add(x)
                res.append(x)
        return res
    out = [lo, lo + 1, hi, hi - 1, hi - 2, 0, 1, 2, 3]
    ks = [8, 16, 32, 64, 56, 24, 40, 48, 5, 6, 7, 4] + [k for k in range(1, 65) if k not in (8, 16, 32, 64, 56, 24, 40, 48, 5, 6, 7, 4)]
    for k in ks:
        out += [(1 << k), (1 << k) - 1, (1 << k) + 1]
    out += list(range(4, 65)) + list(range(65, 256))
    seen, res = set(), []
    for x in out:
        if lo <= x <= hi and x not in seen:
            seen.add(x)
            res.append(x)
    return res


def thin(vals, n):
    """keep the n most important values (candidates() lists them in order of importance)"""
    return vals[:max(1, n)]


def rand_value(rng, lo, hi):
    if hi - lo < 256:
        return rng.randint(lo, hi)
    for _ in range(20):
        bits = rng.randint(1, 64)
        v = rng.getrandbits(bits)
        if lo <= v <= hi:
            return v
    return rng.randint(lo, hi)


def sample_file(preamble, lem, seed=1):
    """Coq text that searches the directed sample for an input on which lhs and rhs of the lemma differ"""
    bs = lem["binders"]
    names = [n for n, _ in bs]
    rng = random.Random(seed)
    out = [preamble, "", "Unset Default Timeout.",
           "Fixpoint sf_find {A B} (l : list A) (f : A -> option B) : option B :=",
           "  match l with [] => None | x :: r => match f x with Some y => Some y | None => sf_find r f end end.",
           "Definition sf_orelse {A} (a b : option A) : option A := match a with Some x => Some x | None => b end."]
    if not bs:
        out.append("Definition sf_bad : bool := negb (sf_eqb (%s) (%s))." % (lem["lhs"], lem["rhs"]))
        out.append("Eval vm_compute in (if sf_bad then Some tt else None).")
        out.append("Eval vm_compute in (%s)." % lem["lhs"])
        out.append("Eval vm_compute in (%s)." % lem["rhs"])
        return "\n".join(out) + "\n", []
    cands, rng_bounds, full = [], [], []
    for n, ty in bs:
        if ty == "bool":
            cands.append(["true", "false"])
            rng_bounds.append(None)
        else:
            lo, hi = bounds(n, lem["hyps"])
            cands.append(candidates(lo, hi, len(bs)))
            rng_bounds.append((lo, hi))
    full = [list(c) for c in cands]
    # keep the product within the budget by thinning the largest candidate sets
    def prod():
        p = 1
        for c in cands:
            p *= len(c)
        return p
    while prod() > BUDGET:
        i = max(range(len(cands)), key=lambda j: len(cands[j]))
        cands[i] = thin(cands[i], max(6, int(len(cands[i]) * 0.7)))
    args = " ".join("(%s : %s)" % (n, t) for n, t in bs)
    dom = " && ".join(hyp_bool(h) for h in lem["hyps"]) or "true"
    tup = "(" + ", ".join(names) + ")" if len(names) > 1 else names[0]
    tupty = " * ".join(t for _, t in bs)
    out.append("Definition sf_lhs %s := %s." % (args, lem["lhs"]))
    out.append("Definition sf_rhs %s := %s." % (args, lem["rhs"]))
    out.append("Definition sf_bad %s : bool := (%s) && negb (sf_eqb (sf_lhs %s) (sf_rhs %s))." % (args, dom, " ".join(names), " ".join(names)))
    for (n, t), c in zip(bs, cands):
        out.append("Definition sf_c_%s : list %s := [%s]." % (n, t, "; ".join(str(x) for x in c)))
    inner = "(if sf_bad %s then Some %s else None)" % (" ".join(names), tup)
    for n, t in reversed(bs):
        inner = "(sf_find sf_c_%s (fun %s => %s))" % (n, n, inner)
    out.append("Definition sf_search : option (%s) := %s." % (tupty, inner))
    rnd = []
    for _ in range(NRANDOM if len(bs) < 3 else 5 * NRANDOM):
        # each coordinate: a boundary value of its (unthinned) candidate set, or a pseudo-random value
        rnd.append("(" + ", ".join(str(rng.choice(full[j])) if (b is None or rng.random() < 0.6) else str(rand_value(rng, b[0], b[1]))
                                   for j, b in enumerate(rng_bounds)) + ")")
    pat = ("'" + tup) if len(names) > 1 else names[0]
    out.append("Definition sf_rnd : list (%s) := [%s]." % (tupty, "; ".join(r if len(names) > 1 else r[1:-1] for r in rnd)))
    out.append("Definition sf_search_rnd : option (%s) := sf_find sf_rnd (fun %s => if sf_bad %s then Some %s else None)." % (tupty, pat, " ".join(names), tup))
    out.append("Definition sf_found : option (%s) := sf_orelse sf_search sf_search_rnd." % tupty)
    out.append("Eval vm_compute in sf_found.")
    out.append("Eval vm_compute in (option_map (fun %s => sf_lhs %s) sf_found)." % (pat, " ".join(names)))
    out.append("Eval vm_compute in (option_map (fun %s => sf_rhs %s) sf_found)." % (pat, " ".join(names)))
    return "\n".join(out) + "\n", [len(c) for c in cands]


def run_sample(root, preamble, lem, tag, log):
    coq = os.path.join(root, "coq")
    d = os.path.join(coq, "cases")
    os.makedirs(d, exist_ok=True)
    base = "SrcFunSample_%s_%s" % (tag, lem["name"])
    path = os.path.join(d, base + ".v")
    txt, sizes = sample_file(preamble, lem)
    open(path, "w").write(txt)
    t0 = time.time()
    rc, out = sh(["coqc", "-Q", ".", "FstV", "-w", "none", os.path.join("cases", base + ".v")], cwd=coq, timeout=600)
    log.write("== sample %s rc=%d %.1fs sets=%s\n%s\n" % (lem["name"], rc, time.time() - t0, sizes, out[-1500:]))
    if not os.environ.get("KEEP"):
        for ext in (".v", ".vo", ".glob", ".vok", ".vos"):
            try:
                os.remove(os.path.join(d, base + ext))
            except OSError:
                pass
        try:
            os.remove(os.path.join(d, "." + base + ".aux"))
        except OSError:
            pass
    if rc != 0:
        return {"error": out[-800:]}
    vals = [" ".join(x.split()) for x in re.findall(r"^\s*= (.*?)\n\s*: ", out, re.S | re.M)]
    if len(vals) < 3:
        return {"error": "unexpected coqc output: " + out[-400:]}
    found = vals[-3]
    if found.startswith("None"):
        return {"found": None, "searched": sizes}
    inp = re.sub(r"^Some\s*", "", found).strip()
    nums = re.findall(r"\d+|true|false|tt", inp)
    return {"found": dict(zip([n for n, _ in lem["binders"]], nums)) if lem["binders"] else {},
            "src_value": re.sub(r"^Some\s*", "", vals[-2]), "model_value": re.sub(r"^Some\s*", "", vals[-1]), "searched": sizes}


# ------------------------------------------------------------------ main loop
def changed_functions(order_texts, pinned):
    return set(n for n, t in order_texts.items() if n not in pinned or pinned[n][1].strip() != t.strip())


def closure(fns, texts):
    seen, todo = set(), list(fns)
    while todo:
        f = todo.pop()
        if f in seen or f not in texts:
            continue
        seen.add(f)
        todo += rustfun.deps_of(texts[f], list(texts))
    return seen


def run(repo, root, log, tag=None):
    tag = tag or str(os.getpid())
    coq = os.path.join(root, "coq")
    out_v = os.path.join(coq, "Generated", "SrcFuns.v")
    tie_v = os.path.join(coq, "SrcFunTie.v")
    res = {"translated": [], "tied_by_proof": [], "fallback_to_pinned": [], "unproved_no_difference": [], "broken": [],
           "untranslatable": {}, "rounds": 0, "ok": True, "detail": ""}
    pinned, _ = rustfun.split_pinned(open(rustfun.PINNED_PATH).read())
    use_pinned = {}
    preamble, lemmas = parse_lemmas(tie_v)
    t_start = time.time()
    # decisions of an earlier run on exactly the same source text, tie file and pinned fragments are reused, so a
    # rewritten function costs its rebuild + sampling once, not on every check
    import hashlib
    cache_path = os.path.join(coq, "Generated", "srcfun_decisions.json")
    txt0 = rustfun.generate(repo, root, {})[0]
    key = hashlib.sha256((txt0 + "\0" + open(tie_v).read() + "\0" + open(rustfun.PINNED_PATH).read()).encode()).hexdigest()
    cached = None
    try:
        c = json.load(open(cache_path))
        if c.get("key") == key:
            cached = c
    except (OSError, ValueError):
        pass
    if cached:
        use_pinned = dict(cached["use_pinned"])
        for k in ("unproved_no_difference", "broken"):
            res[k] = cached["res"][k]
        res["reused_decisions"] = True
    for rnd in range(12):
        res["rounds"] = rnd + 1
        txt, report, order, texts = rustfun.generate(repo, root, use_pinned)
        os.makedirs(os.path.dirname(out_v), exist_ok=True)
        if not os.path.exists(out_v) or open(out_v).read() != txt:
            open(out_v, "w").write(txt)
        json.dump(report, open(os.path.join(coq, "Generated", "srcfuns_report.json"), "w"), indent=1)
        if rnd == 0:
            sh([os.path.join(root, "tools", "mkproject.sh")])      # a fresh clone: SrcFuns.v has just appeared
        if rnd == 0:
            for n, f in report["functions"].items():
                if f["status"] == "fallback_to_pinned" and f["target"]:
                    res["untranslatable"][n] = f["reason"]
        t0 = time.time()
        rc, out = sh(["make", "-j4", "SrcFunTie.vo"], cwd=coq, timeout=900)
        log.write("== srcfun round %d: make SrcFunTie.vo rc=%d %.1fs\n%s\n" % (rnd, rc, time.time() - t0, out[-1500:] if rc else ""))
        if rc == 0:
            break
        m = re.search(r'File "\./([^"]+)", line (\d+)[^\n]*\n(Error:[\s\S]{0,400})', out)
        if not m:
            res.update(ok=False, detail="make SrcFunTie.vo failed: " + out[-600:])
            break
        fname, line, err = m.group(1), int(m.group(2)), m.group(3).strip()
        changed = changed_functions(texts, pinned) - set(use_pinned)
        if fname.endswith("Generated/SrcFuns.v"):
            # the translation itself does not typecheck: the function defined around that line falls back
            defs = [(mm.start(), mm.group(1)) for mm in re.finditer(r"^Definition (src_fn_\w+)", txt, re.M)]
            pos = sum(len(l) + 1 for l in txt.split("\n")[:line - 1])
            cur = [n for s, n in defs if s <= pos]
            f = cur[-1] if cur else None
            if f is None or f not in changed or f not in pinned:
                res.update(ok=False, detail="Generated/SrcFuns.v line %d: %s" % (line, err))
                break
            use_pinned[f] = "its translation does not typecheck (%s)" % err.split("\n")[0][:120]
            res["unproved_no_difference"].append(f)
            continue
        if not fname.endswith("SrcFunTie.v"):
            res.update(ok=False, detail="%s line %d: %s" % (fname, line, err))
            break
        lem = [l for l in lemmas if l["line0"] <= line <= l["line1"]]
        if not lem:
            res.update(ok=False, detail="SrcFunTie.v line %d (outside the tie lemmas): %s" % (line, err))
            break
        lem = lem[0]
        blame = sorted(closure(lem["fns"], texts) & changed & set(pinned))
        if not blame:
            res.update(ok=False, detail="SrcFunTie.v lemma %s fails although every function it mentions has its pinned text: %s" % (lem["name"], err))
            break
        s = run_sample(root, preamble, lem, tag, log)
        if s.get("error"):
            # the sample cannot even be evaluated (e.g. a changed signature): not comparable -> treated as a difference
            res["broken"].append({"lemma": lem["name"], "functions": blame, "input": None, "src_value": None, "model_value": None,
                                  "statement": lem["stmt"], "detail": "sampling file does not compile: " + s["error"][-300:]})
        elif s["found"] is None:
            res["unproved_no_difference"] += [f for f in blame if f not in res["unproved_no_difference"]]
        else:
            res["broken"].append({"lemma": lem["name"], "functions": blame, "input": s["found"], "src_value": s["src_value"],
                                  "model_value": s["model_value"], "statement": lem["stmt"], "proof_error": err[:300]})
        for f in blame:
            use_pinned[f] = "tie lemma %s not proved for the current translation" % lem["name"]
    else:
        res.update(ok=False, detail="tie lemmas still failing after 12 rounds")
    res["fallback_to_pinned"] = sorted(set(list(use_pinned) + list(res["untranslatable"])))
    res["translated"] = [n for n in report["translated"]]
    res["tied_by_proof"] = [n for n in report["translated"] if report["functions"][n]["target"]] if res["ok"] else []
    res["seconds"] = round(time.time() - t_start, 2)
    if res["ok"] and not cached:
        try:
            json.dump({"key": key, "use_pinned": use_pinned, "res": {k: res[k] for k in ("unproved_no_difference", "broken")}}, open(cache_path, "w"))
        except OSError:
            pass
    return res


def selftest(repo, root):
    """run the sampler on every lemma of the present tree: no difference may be reported"""
    preamble, lemmas = parse_lemmas(os.path.join(root, "coq", "SrcFunTie.v"))
    bad = 0

    class L:
        def write(self, s):
            pass
    for lem in lemmas:
        s = run_sample(root, preamble, lem, "self", L())
        ok = s.get("found", 1) is None
        bad += 0 if ok else 1
        print("%-48s %s %s" % (lem["name"], "no difference" if ok else "PROBLEM", s.get("searched") if ok else s))
    return bad


if __name__ == "__main__":
    repo = sys.argv[1] if len(sys.argv) > 1 and not sys.argv[1].startswith("--") else os.environ.get("VERIF_REPO", "/repo")
    if "--selftest" in sys.argv:
        sys.exit(1 if selftest(repo, ROOT) else 0)
    r = run(repo, ROOT, sys.stdout)
    print(json.dumps(r, indent=1))
