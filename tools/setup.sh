#!/bin/sh
# setup: build the whole Coq development (full .vo build), every extracted model and the harness.
set -e
root=$(cd "$(dirname "$0")/.." && pwd)
cd "$root"
export CARGO_NET_OFFLINE=true
tools/srcparams.py "${VERIF_REPO:-/repo}" coq/Generated/SrcParams.v
tools/rustfun.py "${VERIF_REPO:-/repo}" coq/Generated/SrcFuns.v
tools/mkproject.sh
( cd coq && timeout 3000 make -j16 2>&1 | tail -40 )
for f in ocaml/drv_*.ml; do
  g=$(basename "$f" .ml | sed 's/^drv_//')
  [ -f "coq/${g}_model.ml" ] && tools/build_model.sh "$g"
done
[ -f harness/Cargo.lock ] || cp "${VERIF_REPO:-/repo}/Cargo.lock" harness/Cargo.lock
( cd harness && RUSTFLAGS="--cfg burntsushi_fst_verif" cargo build --release --offline 2>&1 | tail -5 )
echo setup done
