#!/usr/bin/env python3
import sys
c = open(sys.argv[1]).read().split('\n'); a = open(sys.argv[2]).read().split('\n')
open(sys.argv[3], 'w').write(''.join(c[i] + '\t@@\t' + a[i] + '\n' for i in range(len(c) - 1)))
