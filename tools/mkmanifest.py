#!/usr/bin/env python3
"""Regenerate MANIFEST.json from tools/propcfg/*.py (claimed properties) and properties.jsonl."""
import json, os, sys, subprocess
ROOT = os.path.dirname(os.path.dirname(os.path.abspath(__file__)))
sys.path.insert(0, os.path.join(ROOT, "tools"))
from props import PROPS

props = [json.loads(l) for l in open(os.path.join(ROOT, "properties.jsonl"))]
hooks_commits = subprocess.run("git -C /repo log --format=%h --grep='^verif hooks'", shell=True, capture_output=True, text=True).stdout.split()
NOT_CLAIMED = {}   # id -> reason, for properties without a propcfg file
m = {
    "version": 1,
    "setup_cmd": "tools/setup.sh",
    "hooks": {
        "guard": "burntsushi_fst_verif",
        "enable": "RUSTFLAGS=\"--cfg burntsushi_fst_verif\" (set by tools/check when it builds harness/ and fst-bin against /repo)",
        "baseline_off_cmd": "cd /repo && cargo test --workspace --no-fail-fast --offline",
        "source_commits": hooks_commits,
        "add_only": True,
    },
    "engines": [{
        "name": "fstv", "path": "tools/check", "serves_properties": sorted(PROPS.keys()),
        "kind_free_text": "Coq 8.16 development (coq/: Gallina model of the Rust code + specification + theorems, one Properties/Cnn.v per property) and a differential correspondence between /repo (Rust harness built against the working tree), the extracted model and the extracted specification",
    }],
    "checks": [],
    "not_applicable": [],
    "notes": "See DESIGN.md. Every check: tools/check <ID> quick|thorough (env VERIF_SEED); replay: tools/check <ID> --replay <path>. known-findings.txt lists repaired defects (fixed:) and open findings (finding:).",
}
for p in props:
    pid = p["id"]
    if pid in PROPS:
        c = PROPS[pid]
        partial = c.get("partial", "")
        text = c.get("level_text") or (
            "Theorems in coq/%s (closed under the global context, stdlib only) about a hand-written Gallina model of the code, proved for all inputs; the model is tied to /repo on every run by translators (constants and tables; the node-cache hash; %s) and by a differential correspondence (%s)."
            % (", ".join(c.get("coq_targets", [])).replace(".vo", ".v"),
               ("about a hundred leaf functions of src/bytes.rs, src/raw/node.rs, src/raw/mod.rs (Output, Bound, bound setters, Fst::new conditions), src/raw/crc32.rs (masking, slice-by-16 loop), src/raw/ops.rs (heap order) and src/automaton/mod.rs regenerated as Gallina and proved equal to the model for all inputs in coq/SrcFunTie.v and coq/SrcFunTie2.v" if ("SrcFunTie.vo" in c.get("coq_targets", []) or "SrcFunTie2.vo" in c.get("coq_targets", [])) else "no translated leaf function belongs to this property"),
               c.get("correspondence", "")[:400]))
        if partial:
            text += " PARTIAL: " + partial
        note = c.get("level_note") or ("Trusted: Coq kernel (incl. vm_compute); the hand-written model (checked against the code by sampling; proved equal to the translated source only for the leaf functions of coq/SrcFunTie.v); the translators tools/srcparams.py, tools/rusthash.py, tools/rustfun*.py; extraction (ExtrOcamlBasic only) and OCaml driver; Rust harness. Modelled, not verified: %s. Assumptions: %s"
                                       % ("; ".join(c.get("modelled", [])) or "-", "; ".join(c.get("assumptions", [])) or "-"))
        m["checks"].append({
            "property_id": pid,
            "quick_cmd": "tools/check %s quick" % pid,
            "thorough_cmd": "tools/check %s thorough" % pid,
            "evidence_file": "evidence/%s.json" % pid,
            "replay_cmd_template": "tools/check %s --replay {path}" % pid,
            "engine": "fstv",
            "level_claimed": {"category": c["level"], "text": text[:3000], "design_ref": "DESIGN.md section 7, " + pid},
            "level_note": note[:3000],
            "technique": c.get("technique", "Rocq/Coq proof over a Gallina model + checked model/code correspondence"),
        })
    else:
        m["not_applicable"].append({"property_id": pid, "reason": NOT_CLAIMED.get(pid, "check under construction in this session; not claimed until its model, theorems and correspondence are committed")})
json.dump(m, open(os.path.join(ROOT, "MANIFEST.json"), "w"), indent=1)
print("claimed:", " ".join(sorted(PROPS.keys())))
