(* pinned translation of the pinned revision of /repo (tools/rustfun.py --pin); fragments per function,
   used as fallback text when a function cannot be located or translated *)

(* STRUCT AlwaysMatch = {} *)
(* STRUCT Bound = enum Included | Excluded | Unbounded *)
(* STRUCT CheckSummer = {sum: u32} *)
(* STRUCT Complement = (A) *)
(* STRUCT DynamicLevenshtein = {query: String, dist: usize} *)
(* STRUCT Fst = {meta: Meta, data: D} *)
(* STRUCT Intersection = (A, B) *)
(* STRUCT Output = (u64) *)
(* STRUCT PackSizes = (u8) *)
(* STRUCT Slot = {idx: usize, input: Vec < u8 >, output: Output} *)
(* STRUCT StartsWith = (A) *)
(* STRUCT State = enum OneTransNext | OneTrans | AnyTrans | EmptyFinal *)
(* STRUCT StateAnyTrans = (u8) *)
(* STRUCT StateOneTrans = (u8) *)
(* STRUCT StateOneTransNext = (u8) *)
(* STRUCT Str = {string: & [ u8 ]} *)
(* STRUCT StreamBuilder = {fst: FstRef < >, aut: A, min: Bound, max: Bound} *)
(* STRUCT StreamWithStateBuilder = {fst: FstRef < >, aut: A, min: Bound, max: Bound} *)
(* STRUCT Subsequence = {subseq: & [ u8 ]} *)
(* STRUCT Union = (A, B) *)

Inductive src_Bound : Type :=
  | src_Bound_Included (x0 : list N)
  | src_Bound_Excluded (x0 : list N)
  | src_Bound_Unbounded.

Inductive src_StartsWithStateKind (A : src_aut) : Type :=
  | src_StartsWithStateKind_Done
  | src_StartsWithStateKind_Running (x0 : src_St A).

Inductive src_State : Type :=
  | src_State_OneTransNext (x0 : N)
  | src_State_OneTrans (x0 : N)
  | src_State_AnyTrans (x0 : N)
  | src_State_EmptyFinal.

Definition src_fn_read_u32_le (slice : list N) : res N :=
  do t <- (if (4 <=? (len slice))
    then (Ok 4)
    else Panic);
  Ok (le_lor (firstn (N.to_nat t) slice)).

Definition src_fn_read_u64_le (slice : list N) : res N :=
  do t <- (if (8 <=? (len slice))
    then (Ok 8)
    else Panic);
  Ok (le_lor (firstn (N.to_nat t) slice)).

Definition src_fn_pack_size (n : N) : N :=
  if (n <? 256)
  then 1
  else (if (n <? 65536)
    then 2
    else (if (n <? 16777216)
      then 3
      else (if (n <? 4294967296)
        then 4
        else (if (n <? 1099511627776)
          then 5
          else (if (n <? 281474976710656)
            then 6
            else (if (n <? 72057594037927936)
              then 7
              else 8)))))).

Definition src_fn_unpack_uint (slice : list N) (nbytes : N) : res N :=
  if ((1 <=? nbytes) && (nbytes <=? 8))
  then (do t <- (if (nbytes <=? (len slice))
      then (Ok nbytes)
      else Panic);
    Ok (fold_left (fun n src_e => let '(i, b) := src_e in (N.lor n (N.shiftl b (8 * i)))) (src_enumerate (firstn (N.to_nat t) slice)) 0))
  else Panic.

Definition src_fn_pack_uint_in_bytes (n nbytes : N) : res (list N) :=
  if ((1 <=? nbytes) && (nbytes <=? 8))
  then (let buf := (repeatN 0 8) in
    let '(buf_3, n_3) := (fold_left (fun src_st i => let '(buf_1, n_1) := src_st in let buf_2 := (set_nth buf_1 (N.to_nat i) (n_1 mod 256)) in
      let n_2 := (N.shiftr n_1 8) in
      (buf_2, n_2)) (src_range 0 nbytes) (buf, n)) in
    Ok (firstn (N.to_nat nbytes) buf_3))
  else Panic.

Definition src_fn_Bound_exceeded_by (self_ : src_Bound) (inp : list N) : bool :=
  match self_ with
  | src_Bound_Included v => (key_ltb v inp)
  | src_Bound_Excluded v_1 => (key_leb v_1 inp)
  | src_Bound_Unbounded => false
  end.

Definition src_fn_Bound_is_empty (self_ : src_Bound) : bool :=
  match self_ with
  | src_Bound_Included v => (len v =? 0)
  | src_Bound_Excluded v_1 => (len v_1 =? 0)
  | src_Bound_Unbounded => true
  end.

Definition src_fn_Bound_is_inclusive (self_ : src_Bound) : bool :=
  match self_ with
  | src_Bound_Included _ => true
  | src_Bound_Excluded _ => false
  | src_Bound_Unbounded => true
  end.

Definition src_fn_StreamBuilder_ge (self_min self_max : src_Bound) (bound : list N) : (src_Bound * src_Bound) :=
  let selfmin := (src_Bound_Included bound) in
  (selfmin, self_max).

Definition src_fn_StreamBuilder_gt (self_min self_max : src_Bound) (bound : list N) : (src_Bound * src_Bound) :=
  let selfmin := (src_Bound_Excluded bound) in
  (selfmin, self_max).

Definition src_fn_StreamBuilder_le (self_min self_max : src_Bound) (bound : list N) : (src_Bound * src_Bound) :=
  let selfmax := (src_Bound_Included bound) in
  (self_min, selfmax).

Definition src_fn_StreamBuilder_lt (self_min self_max : src_Bound) (bound : list N) : (src_Bound * src_Bound) :=
  let selfmax := (src_Bound_Excluded bound) in
  (self_min, selfmax).

Definition src_fn_StreamWithStateBuilder_ge (self_min self_max : src_Bound) (bound : list N) : (src_Bound * src_Bound) :=
  let selfmin := (src_Bound_Included bound) in
  (selfmin, self_max).

Definition src_fn_StreamWithStateBuilder_gt (self_min self_max : src_Bound) (bound : list N) : (src_Bound * src_Bound) :=
  let selfmin := (src_Bound_Excluded bound) in
  (selfmin, self_max).

Definition src_fn_StreamWithStateBuilder_le (self_min self_max : src_Bound) (bound : list N) : (src_Bound * src_Bound) :=
  let selfmax := (src_Bound_Included bound) in
  (self_min, selfmax).

Definition src_fn_StreamWithStateBuilder_lt (self_min self_max : src_Bound) (bound : list N) : (src_Bound * src_Bound) :=
  let selfmax := (src_Bound_Excluded bound) in
  (self_min, selfmax).

Definition src_fn_Output_prefix (self0 o : N) : N :=
  (N.min self0 o).

Definition src_fn_Output_cat (self0 o : N) : res N :=
  if ((self0 + o) <=? 18446744073709551615)
  then (Ok (self0 + o))
  else Panic.

Definition src_fn_Output_sub (self0 o : N) : res N :=
  if (o <=? self0)
  then (Ok (self0 - o))
  else Panic.

Definition src_fn_CheckSummer_masked (self_sum : N) : N :=
  (((N.lor (N.shiftr self_sum 15) ((N.shiftl self_sum 17) mod 4294967296)) + 2726488792) mod 4294967296).

Definition src_fn_crc32c_slice16 (TABLE : list N) (TABLE16 : list (list N)) (prev : N) (buf : list N) : res N :=
  let crc := (4294967295 - prev) in
  do t_1 <- (src_while_res (length buf) (fun '(crc_1, buf_1) => (16 <=? (len buf_1))) (fun '(crc_2, buf_2) => do t <- (src_fn_read_u32_le buf_2);
      let crc_3 := (N.lxor crc_2 t) in
      let crc_4 := (N.lxor (N.lxor (N.lxor (N.lxor (N.lxor (N.lxor (N.lxor (N.lxor (N.lxor (N.lxor (N.lxor (N.lxor (N.lxor (N.lxor (N.lxor (List.nth (N.to_nat (List.nth (N.to_nat 15) buf_2 0)) (List.nth (N.to_nat 0) TABLE16 []) 0) (List.nth (N.to_nat (List.nth (N.to_nat 14) buf_2 0)) (List.nth (N.to_nat 1) TABLE16 []) 0)) (List.nth (N.to_nat (List.nth (N.to_nat 13) buf_2 0)) (List.nth (N.to_nat 2) TABLE16 []) 0)) (List.nth (N.to_nat (List.nth (N.to_nat 12) buf_2 0)) (List.nth (N.to_nat 3) TABLE16 []) 0)) (List.nth (N.to_nat (List.nth (N.to_nat 11) buf_2 0)) (List.nth (N.to_nat 4) TABLE16 []) 0)) (List.nth (N.to_nat (List.nth (N.to_nat 10) buf_2 0)) (List.nth (N.to_nat 5) TABLE16 []) 0)) (List.nth (N.to_nat (List.nth (N.to_nat 9) buf_2 0)) (List.nth (N.to_nat 6) TABLE16 []) 0)) (List.nth (N.to_nat (List.nth (N.to_nat 8) buf_2 0)) (List.nth (N.to_nat 7) TABLE16 []) 0)) (List.nth (N.to_nat (List.nth (N.to_nat 7) buf_2 0)) (List.nth (N.to_nat 8) TABLE16 []) 0)) (List.nth (N.to_nat (List.nth (N.to_nat 6) buf_2 0)) (List.nth (N.to_nat 9) TABLE16 []) 0)) (List.nth (N.to_nat (List.nth (N.to_nat 5) buf_2 0)) (List.nth (N.to_nat 10) TABLE16 []) 0)) (List.nth (N.to_nat (List.nth (N.to_nat 4) buf_2 0)) (List.nth (N.to_nat 11) TABLE16 []) 0)) (List.nth (N.to_nat (N.shiftr crc_3 24)) (List.nth (N.to_nat 12) TABLE16 []) 0)) (List.nth (N.to_nat ((N.shiftr crc_3 16) mod 256)) (List.nth (N.to_nat 13) TABLE16 []) 0)) (List.nth (N.to_nat ((N.shiftr crc_3 8) mod 256)) (List.nth (N.to_nat 14) TABLE16 []) 0)) (List.nth (N.to_nat (crc_3 mod 256)) (List.nth (N.to_nat 15) TABLE16 []) 0)) in
      let buf_3 := (skipn (N.to_nat 16) buf_2) in
      Ok (crc_4, buf_3)) (crc, buf));
  let '(crc_5, buf_4) := t_1 in
  let crc_8 := (fold_left (fun crc_6 b => (N.lxor (List.nth (N.to_nat (N.lxor (crc_6 mod 256) b)) TABLE 0) (N.shiftr crc_6 8))) buf_4 crc_5) in
  Ok (4294967295 - crc_8).

Definition src_fn_CheckSummer_new : N :=
  0.

Definition src_fn_CheckSummer_update (TABLE : list N) (TABLE16 : list (list N)) (self_sum : N) (buf : list N) : res N :=
  (src_fn_crc32c_slice16 TABLE TABLE16 self_sum buf).

Definition src_fn_common_idx (input max_ : N) : N :=
  let val_ := (((List.nth (N.to_nat input) src_COMMON_INPUTS 0) + 1) mod 256) in
  if (max_ <? val_)
  then 0
  else val_.

Definition src_fn_common_input (idx : N) : option N :=
  if (idx =? 0)
  then None
  else (Some (List.nth (N.to_nat (idx - 1)) src_COMMON_INPUTS_INV 0)).

Definition src_fn_PackSizes_new : N :=
  0.

Definition src_fn_PackSizes_decode (v : N) : N :=
  v.

Definition src_fn_PackSizes_encode (self0 : N) : N :=
  self0.

Definition src_fn_PackSizes_set_transition_pack_size (self0 size : N) : res N :=
  if (size <=? 8)
  then (Ok (N.lor (N.land self0 15) (N.shiftl size 4)))
  else Panic.

Definition src_fn_PackSizes_transition_pack_size (self0 : N) : N :=
  (N.shiftr (N.land self0 240) 4).

Definition src_fn_PackSizes_set_output_pack_size (self0 size : N) : res N :=
  if (size <=? 8)
  then (Ok (N.lor (N.land self0 240) size))
  else Panic.

Definition src_fn_PackSizes_output_pack_size (self0 : N) : N :=
  (N.land self0 15).

Definition src_fn_State_new_tag (v : N) : N :=
  let scrut := (N.shiftr (N.land v 192) 6) in
  if (scrut =? 3)
  then 3
  else (if (scrut =? 2)
    then 2
    else 0).

Definition src_fn_StateOneTransNext_new : N :=
  192.

Definition src_fn_StateOneTransNext_set_common_input (self0 input : N) : N :=
  (N.lor (N.land self0 192) (src_fn_common_idx input 63)).

Definition src_fn_StateOneTransNext_common_input (self0 : N) : option N :=
  (src_fn_common_input (N.land self0 63)).

Definition src_fn_StateOneTransNext_input_len (self0 : N) : N :=
  if (match (src_fn_StateOneTransNext_common_input self0) with Some _ => false | None => true end)
  then 1
  else 0.

Definition src_fn_StateOneTrans_new : N :=
  128.

Definition src_fn_StateOneTrans_set_common_input (self0 input : N) : N :=
  (N.lor (N.land self0 128) (src_fn_common_idx input 63)).

Definition src_fn_StateOneTrans_common_input (self0 : N) : option N :=
  (src_fn_common_input (N.land self0 63)).

Definition src_fn_StateOneTrans_input_len (self0 : N) : N :=
  if (match (src_fn_StateOneTrans_common_input self0) with Some _ => false | None => true end)
  then 1
  else 0.

Definition src_fn_StateAnyTrans_new : N :=
  0.

Definition src_fn_StateAnyTrans_set_final_state (self0 : N) (yes : bool) : N :=
  if yes
  then ((N.lor self0 64))
  else self0.

Definition src_fn_StateAnyTrans_is_final_state (self0 : N) : bool :=
  ((N.land self0 64) =? 64).

Definition src_fn_StateAnyTrans_set_state_ntrans (self0 n : N) : N :=
  if (n <=? 63)
  then ((N.lor (N.land self0 192) n))
  else self0.

Definition src_fn_StateAnyTrans_state_ntrans (self0 : N) : option N :=
  let n := (N.land self0 63) in
  if (n =? 0)
  then None
  else (Some n).

Definition src_fn_StateAnyTrans_ntrans_len (self0 : N) : N :=
  if (match (src_fn_StateAnyTrans_state_ntrans self0) with Some _ => false | None => true end)
  then 1
  else 0.

Definition src_fn_StateAnyTrans_trans_index_size (self0 version ntrans : N) : N :=
  if ((2 <=? version) && (32 <? ntrans))
  then 256
  else 0.

Definition src_fn_StateAnyTrans_total_trans_size (self0 version sizes ntrans : N) : res N :=
  let index_size := (src_fn_StateAnyTrans_trans_index_size self0 version ntrans) in
  do t <- (if ((ntrans * (src_fn_PackSizes_transition_pack_size sizes)) <=? 18446744073709551615)
    then (Ok (ntrans * (src_fn_PackSizes_transition_pack_size sizes)))
    else Panic);
  do t_1 <- (if ((ntrans + t) <=? 18446744073709551615)
    then (Ok (ntrans + t))
    else Panic);
  if ((t_1 + index_size) <=? 18446744073709551615)
  then (Ok (t_1 + index_size))
  else Panic.

Definition src_fn_StateOneTransNext_end_addr (v data_len : N) : res N :=
  do t <- (if (1 <=? data_len)
    then (Ok (data_len - 1))
    else Panic);
  if ((src_fn_StateOneTransNext_input_len v) <=? t)
  then (Ok (t - (src_fn_StateOneTransNext_input_len v)))
  else Panic.

Definition src_fn_StateOneTransNext_trans_addr (v end_ : N) : res N :=
  if (1 <=? end_)
  then (Ok (end_ - 1))
  else Panic.

Definition src_fn_StateOneTrans_sizes_at (v data_len : N) : res N :=
  do t <- (if (1 <=? data_len)
    then (Ok (data_len - 1))
    else Panic);
  do t_1 <- (if ((src_fn_StateOneTrans_input_len v) <=? t)
    then (Ok (t - (src_fn_StateOneTrans_input_len v)))
    else Panic);
  if (1 <=? t_1)
  then (Ok (t_1 - 1))
  else Panic.

Definition src_fn_StateOneTrans_end_addr (v data_len sizes : N) : res N :=
  do t <- (if (1 <=? data_len)
    then (Ok (data_len - 1))
    else Panic);
  do t_1 <- (if ((src_fn_StateOneTrans_input_len v) <=? t)
    then (Ok (t - (src_fn_StateOneTrans_input_len v)))
    else Panic);
  do t_2 <- (if (1 <=? t_1)
    then (Ok (t_1 - 1))
    else Panic);
  do t_3 <- (if ((src_fn_PackSizes_transition_pack_size sizes) <=? t_2)
    then (Ok (t_2 - (src_fn_PackSizes_transition_pack_size sizes)))
    else Panic);
  if ((src_fn_PackSizes_output_pack_size sizes) <=? t_3)
  then (Ok (t_3 - (src_fn_PackSizes_output_pack_size sizes)))
  else Panic.

Definition src_fn_StateOneTrans_output_at (start v sizes : N) : res (option N) :=
  let osize := (src_fn_PackSizes_output_pack_size sizes) in
  if (osize =? 0)
  then (Ok None)
  else (let tsize := (src_fn_PackSizes_transition_pack_size sizes) in
    do t <- (if ((src_fn_StateOneTrans_input_len v) <=? start)
      then (Ok (start - (src_fn_StateOneTrans_input_len v)))
      else Panic);
    do t_1 <- (if (1 <=? t)
      then (Ok (t - 1))
      else Panic);
    do t_2 <- (if (tsize <=? t_1)
      then (Ok (t_1 - tsize))
      else Panic);
    do t_3 <- (if (osize <=? t_2)
      then (Ok (t_2 - osize))
      else Panic);
    Ok (Some t_3)).

Definition src_fn_StateOneTrans_trans_addr_at (start v sizes : N) : res N :=
  let tsize := (src_fn_PackSizes_transition_pack_size sizes) in
  do t <- (if ((src_fn_StateOneTrans_input_len v) <=? start)
    then (Ok (start - (src_fn_StateOneTrans_input_len v)))
    else Panic);
  do t_1 <- (if (1 <=? t)
    then (Ok (t - 1))
    else Panic);
  if (tsize <=? t_1)
  then (Ok (t_1 - tsize))
  else Panic.

Definition src_fn_StateAnyTrans_sizes_at (v data_len : N) : res N :=
  do t <- (if (1 <=? data_len)
    then (Ok (data_len - 1))
    else Panic);
  do t_1 <- (if ((src_fn_StateAnyTrans_ntrans_len v) <=? t)
    then (Ok (t - (src_fn_StateAnyTrans_ntrans_len v)))
    else Panic);
  if (1 <=? t_1)
  then (Ok (t_1 - 1))
  else Panic.

Definition src_fn_StateAnyTrans_ntrans_at (v data_len : N) : res N :=
  if (2 <=? data_len)
  then (Ok (data_len - 2))
  else Panic.

Definition src_fn_StateAnyTrans_final_output_at (v version data_len sizes ntrans : N) : res (option N) :=
  let osize := (src_fn_PackSizes_output_pack_size sizes) in
  if ((osize =? 0) || (negb (src_fn_StateAnyTrans_is_final_state v)))
  then (Ok None)
  else (do t <- (if (1 <=? data_len)
      then (Ok (data_len - 1))
      else Panic);
    do t_1 <- (if ((src_fn_StateAnyTrans_ntrans_len v) <=? t)
      then (Ok (t - (src_fn_StateAnyTrans_ntrans_len v)))
      else Panic);
    do t_2 <- (if (1 <=? t_1)
      then (Ok (t_1 - 1))
      else Panic);
    do t_3 <- (src_fn_StateAnyTrans_total_trans_size v version sizes ntrans);
    do t_4 <- (if (t_3 <=? t_2)
      then (Ok (t_2 - t_3))
      else Panic);
    do t_5 <- (if ((ntrans * osize) <=? 18446744073709551615)
      then (Ok (ntrans * osize))
      else Panic);
    do t_6 <- (if (t_5 <=? t_4)
      then (Ok (t_4 - t_5))
      else Panic);
    do t_7 <- (if (osize <=? t_6)
      then (Ok (t_6 - osize))
      else Panic);
    Ok (Some t_7)).

Definition src_fn_StateAnyTrans_end_addr (v version data_len sizes ntrans : N) : res N :=
  let osize := (src_fn_PackSizes_output_pack_size sizes) in
  let final_osize := (if (negb (src_fn_StateAnyTrans_is_final_state v))
      then 0
      else osize) in
  do t <- (if (1 <=? data_len)
    then (Ok (data_len - 1))
    else Panic);
  do t_1 <- (if ((src_fn_StateAnyTrans_ntrans_len v) <=? t)
    then (Ok (t - (src_fn_StateAnyTrans_ntrans_len v)))
    else Panic);
  do t_2 <- (if (1 <=? t_1)
    then (Ok (t_1 - 1))
    else Panic);
  do t_3 <- (src_fn_StateAnyTrans_total_trans_size v version sizes ntrans);
  do t_4 <- (if (t_3 <=? t_2)
    then (Ok (t_2 - t_3))
    else Panic);
  do t_5 <- (if ((ntrans * osize) <=? 18446744073709551615)
    then (Ok (ntrans * osize))
    else Panic);
  do t_6 <- (if (t_5 <=? t_4)
    then (Ok (t_4 - t_5))
    else Panic);
  if (final_osize <=? t_6)
  then (Ok (t_6 - final_osize))
  else Panic.

Definition src_fn_StateAnyTrans_trans_addr_at (start v sizes ntrans version i : N) : res N :=
  if (i <? ntrans)
  then (let tsize := (src_fn_PackSizes_transition_pack_size sizes) in
    do t <- (if ((src_fn_StateAnyTrans_ntrans_len v) <=? start)
      then (Ok (start - (src_fn_StateAnyTrans_ntrans_len v)))
      else Panic);
    do t_1 <- (if (1 <=? t)
      then (Ok (t - 1))
      else Panic);
    do t_2 <- (if ((src_fn_StateAnyTrans_trans_index_size v version ntrans) <=? t_1)
      then (Ok (t_1 - (src_fn_StateAnyTrans_trans_index_size v version ntrans)))
      else Panic);
    do t_3 <- (if (ntrans <=? t_2)
      then (Ok (t_2 - ntrans))
      else Panic);
    do t_4 <- (if ((i * tsize) <=? 18446744073709551615)
      then (Ok (i * tsize))
      else Panic);
    do t_5 <- (if (t_4 <=? t_3)
      then (Ok (t_3 - t_4))
      else Panic);
    if (tsize <=? t_5)
    then (Ok (t_5 - tsize))
    else Panic)
  else Panic.

Definition src_fn_StateAnyTrans_input_at (start v sizes ntrans version i : N) : res N :=
  do t <- (if ((src_fn_StateAnyTrans_ntrans_len v) <=? start)
    then (Ok (start - (src_fn_StateAnyTrans_ntrans_len v)))
    else Panic);
  do t_1 <- (if (1 <=? t)
    then (Ok (t - 1))
    else Panic);
  do t_2 <- (if ((src_fn_StateAnyTrans_trans_index_size v version ntrans) <=? t_1)
    then (Ok (t_1 - (src_fn_StateAnyTrans_trans_index_size v version ntrans)))
    else Panic);
  do t_3 <- (if (i <=? t_2)
    then (Ok (t_2 - i))
    else Panic);
  if (1 <=? t_3)
  then (Ok (t_3 - 1))
  else Panic.

Definition src_fn_StateAnyTrans_find_input_start (start v sizes ntrans version : N) : res N :=
  if ((2 <=? version) && (32 <? ntrans))
  then (do t <- (if ((src_fn_StateAnyTrans_ntrans_len v) <=? start)
      then (Ok (start - (src_fn_StateAnyTrans_ntrans_len v)))
      else Panic);
    do t_1 <- (if (1 <=? t)
      then (Ok (t - 1))
      else Panic);
    if ((src_fn_StateAnyTrans_trans_index_size v version ntrans) <=? t_1)
    then (Ok (t_1 - (src_fn_StateAnyTrans_trans_index_size v version ntrans)))
    else Panic)
  else (do t_3 <- (if ((src_fn_StateAnyTrans_ntrans_len v) <=? start)
      then (Ok (start - (src_fn_StateAnyTrans_ntrans_len v)))
      else Panic);
    do t_4 <- (if (1 <=? t_3)
      then (Ok (t_3 - 1))
      else Panic);
    if (ntrans <=? t_4)
    then (Ok (t_4 - ntrans))
    else Panic).

Definition src_fn_StateAnyTrans_output_at (start v sizes ntrans version i : N) : res (option N) :=
  let osize := (src_fn_PackSizes_output_pack_size sizes) in
  if (osize =? 0)
  then (Ok None)
  else (do t <- (if ((src_fn_StateAnyTrans_ntrans_len v) <=? start)
      then (Ok (start - (src_fn_StateAnyTrans_ntrans_len v)))
      else Panic);
    do t_1 <- (if (1 <=? t)
      then (Ok (t - 1))
      else Panic);
    do t_2 <- (src_fn_StateAnyTrans_total_trans_size v version sizes ntrans);
    do t_3 <- (if (t_2 <=? t_1)
      then (Ok (t_1 - t_2))
      else Panic);
    do t_4 <- (if ((i * osize) <=? 18446744073709551615)
      then (Ok (i * osize))
      else Panic);
    do t_5 <- (if (t_4 <=? t_3)
      then (Ok (t_3 - t_4))
      else Panic);
    do t_6 <- (if (osize <=? t_5)
      then (Ok (t_5 - osize))
      else Panic);
    Ok (Some t_6)).

Definition src_fn_Str_start (self_string : list N) : option N :=
  (Some 0).

Definition src_fn_Str_is_match (self_string : list N) (pos : option N) : bool :=
  (src_opt_eqb pos (Some (len self_string))).

Definition src_fn_Str_can_match (self_string : list N) (pos : option N) : bool :=
  (match pos with Some _ => true | None => false end).

Definition src_fn_Str_accept (self_string : list N) (pos : option N) (byte : N) : res (option N) :=
  match pos with
  | Some pos_1 => (if (src_opt_eqb (nth_error self_string (N.to_nat pos_1)) (Some byte))
      then (do t <- (if ((pos_1 + 1) <=? 18446744073709551615)
          then (Ok (pos_1 + 1))
          else Panic);
        Ok (Some t))
      else (Ok None))
  | None => (Ok None)
  end.

Definition src_fn_Subsequence_start (self_subseq : list N) : N :=
  0.

Definition src_fn_Subsequence_is_match (self_subseq : list N) (state : N) : bool :=
  (state =? (len self_subseq)).

Definition src_fn_Subsequence_can_match (self_subseq : list N) (unused : N) : bool :=
  true.

Definition src_fn_Subsequence_will_always_match (self_subseq : list N) (state : N) : bool :=
  (state =? (len self_subseq)).

Definition src_fn_Subsequence_accept (self_subseq : list N) (state byte : N) : res N :=
  if (state =? (len self_subseq))
  then (Ok state)
  else (do t <- (if (state <? (len self_subseq))
      then (Ok state)
      else Panic);
    if ((state + (if (byte =? (List.nth (N.to_nat t) self_subseq 0)) then 1 else 0)) <=? 18446744073709551615)
    then (Ok (state + (if (byte =? (List.nth (N.to_nat t) self_subseq 0)) then 1 else 0)))
    else Panic).

Definition src_fn_AlwaysMatch_start : unit :=
  tt.

Definition src_fn_AlwaysMatch_is_match (unused : unit) : bool :=
  true.

Definition src_fn_AlwaysMatch_can_match (unused : unit) : bool :=
  true.

Definition src_fn_AlwaysMatch_will_always_match (unused : unit) : bool :=
  true.

Definition src_fn_AlwaysMatch_accept (unused : unit) (unused_1 : N) : unit :=
  tt.

Definition src_fn_StartsWith_start (A : src_aut) : src_StartsWithStateKind A :=
  (let inner := (src_start A) in
      if (src_is_match A inner)
      then (src_StartsWithStateKind_Done A)
      else (src_StartsWithStateKind_Running A inner)).

Definition src_fn_StartsWith_is_match (A : src_aut) (state : src_StartsWithStateKind A) : bool :=
  match state with
  | src_StartsWithStateKind_Done _ => true
  | src_StartsWithStateKind_Running _ _ => false
  end.

Definition src_fn_StartsWith_can_match (A : src_aut) (state : src_StartsWithStateKind A) : bool :=
  match state with
  | src_StartsWithStateKind_Done _ => true
  | src_StartsWithStateKind_Running _ inner => (src_can_match A inner)
  end.

Definition src_fn_StartsWith_will_always_match (A : src_aut) (state : src_StartsWithStateKind A) : bool :=
  match state with
  | src_StartsWithStateKind_Done _ => true
  | src_StartsWithStateKind_Running _ _ => false
  end.

Definition src_fn_StartsWith_accept (A : src_aut) (state : src_StartsWithStateKind A) (byte : N) : src_StartsWithStateKind A :=
  (match state with
      | src_StartsWithStateKind_Done _ => (src_StartsWithStateKind_Done A)
      | src_StartsWithStateKind_Running _ inner => (let next_inner := (src_accept A inner byte) in
          if (src_is_match A next_inner)
          then (src_StartsWithStateKind_Done A)
          else (src_StartsWithStateKind_Running A next_inner))
      end).

Definition src_fn_Union_start (A B : src_aut) : ((src_St A) * (src_St B)) :=
  ((src_start A), (src_start B)).

Definition src_fn_Union_is_match (A B : src_aut) (state : ((src_St A) * (src_St B))) : bool :=
  ((src_is_match A (fst state)) || (src_is_match B (snd state))).

Definition src_fn_Union_can_match (A B : src_aut) (state : ((src_St A) * (src_St B))) : bool :=
  ((src_can_match A (fst state)) || (src_can_match B (snd state))).

Definition src_fn_Union_will_always_match (A B : src_aut) (state : ((src_St A) * (src_St B))) : bool :=
  ((src_will_always_match A (fst state)) || (src_will_always_match B (snd state))).

Definition src_fn_Union_accept (A B : src_aut) (state : ((src_St A) * (src_St B))) (byte : N) : ((src_St A) * (src_St B)) :=
  ((src_accept A (fst state) byte), (src_accept B (snd state) byte)).

Definition src_fn_Intersection_start (A B : src_aut) : ((src_St A) * (src_St B)) :=
  ((src_start A), (src_start B)).

Definition src_fn_Intersection_is_match (A B : src_aut) (state : ((src_St A) * (src_St B))) : bool :=
  ((src_is_match A (fst state)) && (src_is_match B (snd state))).

Definition src_fn_Intersection_can_match (A B : src_aut) (state : ((src_St A) * (src_St B))) : bool :=
  ((src_can_match A (fst state)) && (src_can_match B (snd state))).

Definition src_fn_Intersection_will_always_match (A B : src_aut) (state : ((src_St A) * (src_St B))) : bool :=
  ((src_will_always_match A (fst state)) && (src_will_always_match B (snd state))).

Definition src_fn_Intersection_accept (A B : src_aut) (state : ((src_St A) * (src_St B))) (byte : N) : ((src_St A) * (src_St B)) :=
  ((src_accept A (fst state) byte), (src_accept B (snd state) byte)).

Definition src_fn_Complement_start (A : src_aut) : src_St A :=
  (src_start A).

Definition src_fn_Complement_is_match (A : src_aut) (state : src_St A) : bool :=
  (negb (src_is_match A state)).

Definition src_fn_Complement_can_match (A : src_aut) (state : src_St A) : bool :=
  (negb (src_will_always_match A state)).

Definition src_fn_Complement_will_always_match (A : src_aut) (state : src_St A) : bool :=
  (negb (src_can_match A state)).

Definition src_fn_Complement_accept (A : src_aut) (state : src_St A) (byte : N) : src_St A :=
  (src_accept A state byte).

Definition src_fn_Ref_start (T : src_aut) : src_St T :=
  (src_start T).

Definition src_fn_Ref_is_match (T : src_aut) (state : src_St T) : bool :=
  (src_is_match T state).

Definition src_fn_Ref_can_match (T : src_aut) (state : src_St T) : bool :=
  (src_can_match T state).

Definition src_fn_Ref_will_always_match (T : src_aut) (state : src_St T) : bool :=
  (src_will_always_match T state).

Definition src_fn_Ref_accept (T : src_aut) (state : src_St T) (byte : N) : src_St T :=
  (src_accept T state byte).

Definition src_fn_DynamicLevenshtein_start (self_query : list N) (self_dist : N) : res (list N) :=
  do t <- (if (((len self_query) + 1) <=? 18446744073709551615)
    then (Ok ((len self_query) + 1))
    else Panic);
  Ok (src_range 0 t).

Definition src_fn_DynamicLevenshtein_is_match (self_query : list N) (self_dist : N) (state : list N) : bool :=
  (match (match (last_opt state) with Some n => Some (n <=? self_dist) | None => None end) with Some x => x | None => false end).

Definition src_fn_DynamicLevenshtein_can_match (self_query : list N) (self_dist : N) (state : list N) : bool :=
  (match (match (src_list_min state) with Some n => Some (n <=? self_dist) | None => None end) with Some x => x | None => false end).

Definition src_fn_DynamicLevenshtein_accept (self_query : list N) (self_dist : N) (state : list N) (chr : option N) : res (list N) :=
  do t <- (if (0 <? (len state))
    then (Ok 0)
    else Panic);
  do t_1 <- (if (((List.nth (N.to_nat t) state 0) + 1) <=? 18446744073709551615)
    then (Ok ((List.nth (N.to_nat t) state 0) + 1))
    else Panic);
  let next := [t_1] in
  do t_16 <- (fold_left (fun src_acc src_e => do next_3 <- src_acc; let '(i_1, c_1) := src_e in let cost_1 := (if (src_opt_eqb (Some c_1) chr)
      then 0
      else 1) in
      do t_9 <- (if (i_1 <? (len next_3))
        then (Ok i_1)
        else Panic);
      do t_10 <- (if (((List.nth (N.to_nat t_9) next_3 0) + 1) <=? 18446744073709551615)
        then (Ok ((List.nth (N.to_nat t_9) next_3 0) + 1))
        else Panic);
      do t_11 <- (if ((i_1 + 1) <? (len state))
        then (Ok (i_1 + 1))
        else Panic);
      do t_12 <- (if (((List.nth (N.to_nat t_11) state 0) + 1) <=? 18446744073709551615)
        then (Ok ((List.nth (N.to_nat t_11) state 0) + 1))
        else Panic);
      do t_13 <- (if (i_1 <? (len state))
        then (Ok i_1)
        else Panic);
      do t_14 <- (if (((List.nth (N.to_nat t_13) state 0) + cost_1) <=? 18446744073709551615)
        then (Ok ((List.nth (N.to_nat t_13) state 0) + cost_1))
        else Panic);
      let v_1 := (N.min (N.min t_10 t_12) t_14) in
      do t_15 <- (if ((self_dist + 1) <=? 18446744073709551615)
        then (Ok (self_dist + 1))
        else Panic);
      Ok (next_3 ++ [(N.min v_1 t_15)])) (src_enumerate self_query) (Ok next));
  Ok t_16.

Definition src_fn_Slot_partial_cmp (self_idx : N) (self_input : list N) (self_output other_idx : N) (other_input : list N) (other_output : N) : option comparison :=
  (Some (CompOpp (match (lex_cmp self_input other_input) with Eq => (N.compare self_output other_output) | src_c => src_c end))).

Definition src_fn_Slot_cmp (self_idx : N) (self_input : list N) (self_output other_idx : N) (other_input : list N) (other_output : N) : res comparison :=
  match (src_fn_Slot_partial_cmp self_idx self_input self_output other_idx other_input other_output) with
  | Some x => (Ok x)
  | None => Panic
  end.

Definition src_fn_Fst_new_too_short (len version root_addr : N) : bool :=
  (len <? 32).

Definition src_fn_Fst_new_bad_version (len version root_addr : N) : bool :=
  ((version =? 0) || (3 <? version)).

Definition src_fn_Fst_new_too_short_v3 (len version root_addr : N) : bool :=
  ((3 <=? version) && (len <? 36)).

Definition src_fn_Fst_new_bad_root (len version root_addr : N) : bool :=
  (((root_addr =? 0) && (negb (len =? (if (version <=? 2) then 32 else 36)))) && (negb ((if (version <=? 2) then 17 else 21) =? len))).
