#!/bin/sh
# usage: goal.sh <file.v> <line> [extra tactic text]  — show the proof state after <line> lines
f=$1; n=$2; shift 2
d=$(cd "$(dirname "$0")/../coq" && pwd)
t=$(mktemp /tmp/goalXXXXXX.v)
head -n "$n" "$f" > "$t"; echo "$*" >> "$t"; echo "Show." >> "$t"
cd "$d" && coqtop -Q . FstV -quiet < "$t" 2>&1 | tail -${TAIL:-45}
rm -f "$t"
