#!/usr/bin/env python3
"""srcparams.py <repo> <out.v> — translator: regenerates coq/Generated/SrcParams.v from the
current sources of <repo>.  Every item is located by name.  An item that is found with a
value different from the pinned one makes ParamsTie.v fail (a changed format constant).  An item
that cannot be located any more (the code around it was rewritten) falls back to the value of
the pinned revision (tools/srcparams_pinned.json) and is listed in
Generated/srcparams_report.json: for that item the tie is then the differential run alone, which
compares the model computed from the pinned value with what the rewritten code does.
`--write-pinned` regenerates the pinned file from a tree in which everything is found."""
import re, sys, os, json

args = [a for a in sys.argv[1:] if not a.startswith("--")]
repo, out = args[0], args[1]
WRITE_PINNED = "--write-pinned" in sys.argv
PINNED_PATH = os.path.join(os.path.dirname(os.path.abspath(__file__)), "srcparams_pinned.json")
PINNED = {} if WRITE_PINNED or not os.path.exists(PINNED_PATH) else json.load(open(PINNED_PATH))


def read(p):
    return open(os.path.join(repo, p), errors="replace").read()


def num(s):
    s = s.replace("_", "")
    s = re.sub(r"(u8|u16|u32|u64|usize)$", "", s)
    if s.startswith("0x"):
        return int(s, 16)
    if s.startswith("0b"):
        return int(s, 2)
    return int(s)


missing = []
items = []  # (name, coq term)


def grab(name, path, rx, conv=num, group=1):
    try:
        m = re.search(rx, read(path), re.S)
    except OSError:
        m = None
    if not m:
        missing.append("%s (%s)" % (name, path))
        return None
    v = conv(m.group(group))
    items.append((name, v))
    return v


NUM = r"((?:0x[0-9a-fA-F_]+|0b[01_]+|[0-9][0-9_]*)(?:u8|u16|u32|u64|usize)?)"
grab("src_VERSION", "src/raw/mod.rs", r"pub const VERSION: u64 = " + NUM + ";")
grab("src_EMPTY_ADDRESS", "src/raw/mod.rs", r"const EMPTY_ADDRESS: CompiledAddr = " + NUM + ";")
grab("src_NONE_ADDRESS", "src/raw/mod.rs", r"const NONE_ADDRESS: CompiledAddr = " + NUM + ";")
grab("src_TRANS_INDEX_THRESHOLD", "src/raw/node.rs", r"const TRANS_INDEX_THRESHOLD: usize = " + NUM + ";")


def registry_geometry():
    """The node-cache geometry of builders made by the public constructors: the two arguments of the
    `Registry::new(rows, cols)` that `Builder::new_type` evaluates - written there directly, or behind
    `Registry::default()` / named constants (integer literals, `<<`, `*`, `+`, `-`, parentheses, names of
    `const` items of build.rs / registry.rs). Anything else: not located (pinned value + evidence note)."""
    try:
        b, r = read("src/raw/build.rs"), read("src/raw/registry.rs")
    except OSError:
        return None
    body = re.search(r"fn new_type\b.*?\n    \}\n", b, re.S)
    if not body:
        return None
    # the field initialised with a Registry (whatever the field is called)
    m = re.search(r"\b\w+:\s*((?:Registry::\w+|Default::default)\([^\n]*?\)),\s*\n", body.group(0))
    if not m:
        return None
    expr = m.group(1).strip()
    consts = {}
    for txt in (b, r):
        for cm in re.finditer(r"const\s+([A-Z_][A-Z0-9_]*)\s*:\s*(?:usize|u64|u32)\s*=\s*([^;]+);", txt):
            consts.setdefault(cm.group(1), cm.group(2).strip())

    def ev(e, depth=0):
        e = e.strip()
        if depth > 8 or not re.fullmatch(r"[0-9A-Za-z_ \t()<>*+\-]+", e):
            raise ValueError(e)
        def name(mm):
            w = mm.group(0)
            if re.fullmatch(r"(?:0x[0-9a-fA-F_]+|0b[01_]+|[0-9][0-9_]*)(?:u8|u16|u32|u64|usize)?", w):
                return str(num(w))
            if w in consts:
                return "(%d)" % ev(consts[w], depth + 1)
            raise ValueError(w)
        py = re.sub(r"[0-9A-Za-z_]+", name, e)
        if "**" in py or "//" in py:
            raise ValueError(e)
        return int(eval(py, {"__builtins__": {}}, {}))

    call = re.fullmatch(r"Registry::new\((.*)\)", expr, re.S)
    if not call and re.fullmatch(r"Registry::default\(\)|Default::default\(\)", expr):
        d = re.search(r"impl\s+Default\s+for\s+Registry\s*\{.*?fn\s+default\(\)\s*->\s*(?:Registry|Self)\s*\{\s*(?:Registry|Self)::new\((.*?)\)\s*\}", r, re.S)
        call = d
    if not call:
        return None
    args = [a for a in call.group(1).split(",") if a.strip()]
    if len(args) != 2:
        return None
    try:
        return ev(args[0]), ev(args[1])
    except (ValueError, SyntaxError, TypeError, ZeroDivisionError):
        return None


_geo = registry_geometry()
if _geo:
    items.append(("src_registry_rows", _geo[0]))
    items.append(("src_registry_cols", _geo[1]))
else:
    missing.append("src_registry_rows (src/raw/build.rs)")
    missing.append("src_registry_cols (src/raw/build.rs)")
grab("src_CASTAGNOLI_POLY", "build.rs", r"const CASTAGNOLI_POLY: u32 = " + NUM + ";")
grab("src_mask_shr", "src/raw/crc32.rs", r"sum\.wrapping_shr\(" + NUM + r"\)")
grab("src_mask_shl", "src/raw/crc32.rs", r"sum\.wrapping_shl\(" + NUM + r"\)")
grab("src_mask_add", "src/raw/crc32.rs", r"\.wrapping_add\(" + NUM + r"\)")
grab("src_DEFAULT_STATE_LIMIT", "src/automaton/levenshtein.rs", r"const DEFAULT_STATE_LIMIT: usize = " + NUM + ";")
grab("src_open_empty_total_v12", "src/raw/mod.rs", r"if version <= 2 \{ \(" + NUM + r", " + NUM + r"\) \} else \{ \(" + NUM + r", " + NUM + r"\) \}", group=1)
grab("src_open_addr_offset_v12", "src/raw/mod.rs", r"if version <= 2 \{ \(" + NUM + r", " + NUM + r"\) \} else \{ \(" + NUM + r", " + NUM + r"\) \}", group=2)
grab("src_open_empty_total_v3", "src/raw/mod.rs", r"if version <= 2 \{ \(" + NUM + r", " + NUM + r"\) \} else \{ \(" + NUM + r", " + NUM + r"\) \}", group=3)
grab("src_open_addr_offset_v3", "src/raw/mod.rs", r"if version <= 2 \{ \(" + NUM + r", " + NUM + r"\) \} else \{ \(" + NUM + r", " + NUM + r"\) \}", group=4)
grab("src_merge_default_fd_limit", "fst-bin/src/merge.rs", r"fd_limit: " + NUM + ",")
grab("src_merge_default_batch_size", "fst-bin/src/merge.rs", r"batch_size: " + NUM + ",")


# node.rs: state bytes, masks, shifts; bytes.rs: pack_size thresholds
grab("src_state_otn", "src/raw/node.rs", r"fn new\(\) -> StateOneTransNext \{\s*StateOneTransNext\(" + NUM + r"\)")
grab("src_state_ot", "src/raw/node.rs", r"fn new\(\) -> StateOneTrans \{\s*StateOneTrans\(" + NUM + r"\)")
grab("src_state_any", "src/raw/node.rs", r"fn new\(\) -> StateAnyTrans \{\s*StateAnyTrans\(" + NUM + r"\)")
grab("src_state_kind_mask", "src/raw/node.rs", r"match \(v & " + NUM + r"\) >> " + NUM + r" \{", group=1)
grab("src_state_kind_shift", "src/raw/node.rs", r"match \(v & " + NUM + r"\) >> " + NUM + r" \{", group=2)
grab("src_state_kind_otn", "src/raw/node.rs", NUM + r" => State::OneTransNext\(")
grab("src_state_kind_ot", "src/raw/node.rs", NUM + r" => State::OneTrans\(")
grab("src_any_final_flag", "src/raw/node.rs", r"fn set_final_state\(&mut self, yes: bool\) \{\s*if yes \{\s*self\.0 \|= " + NUM + ";")
grab("src_any_ntrans_max_inline", "src/raw/node.rs", r"fn set_state_ntrans\(&mut self, n: u8\) \{\s*if n <= " + NUM + r" \{")
grab("src_any_ntrans_mask", "src/raw/node.rs", r"fn state_ntrans\(&self\) -> Option<u8> \{\s*let n = self\.0 & " + NUM + ";")
grab("src_otn_common_max", "src/raw/node.rs", r"self\.0 = \(self\.0 & 0b11_000000\) \| common_idx\(input, " + NUM + r"\);")
grab("src_ot_common_max", "src/raw/node.rs", r"self\.0 = \(self\.0 & 0b10_000000\) \| common_idx\(input, " + NUM + r"\);")
grab("src_common_input_mask", "src/raw/node.rs", r"fn common_input\(&self\) -> Option<u8> \{\s*common_input\(self\.0 & " + NUM + r"\)")
grab("src_packsizes_tshift", "src/raw/node.rs", r"self\.0 = \(self\.0 & 0b0000_1111\) \| \(size << " + NUM + r"\);")
grab("src_packsizes_tmask", "src/raw/node.rs", r"\(\(self\.0 & " + NUM + r"\) >> 4\) as usize")
grab("src_packsizes_omask", "src/raw/node.rs", r"fn output_pack_size\(&self\) -> usize \{\s*\(self\.0 & " + NUM + r"\) as usize")
grab("src_index_absent", "src/raw/node.rs", r"let mut index = \[" + NUM + r"; 256\];")
grab("src_index_len", "src/raw/node.rs", r"let mut index = \[255u8; " + NUM + r"\];")
grab("src_ntrans_256_marker", "src/raw/node.rs", r"if node\.trans\.len\(\) == 256 \{[^}]*?wtr\.write_all\(&\[" + NUM + r"\]\)\?;")
grab("src_max_trans", "src/raw/node.rs", r"assert!\(node\.trans\.len\(\) <= " + NUM + r"\);")
grab("src_version_index_min", "src/raw/node.rs", r"if version >= " + NUM + r" && ntrans > TRANS_INDEX_THRESHOLD")
grab("src_checksum_version_max_without", "src/raw/mod.rs", r"let \(end, checksum\) = if version <= " + NUM + r" \{")
grab("src_open_min_len", "src/raw/mod.rs", r"let bytes = data\.as_ref\(\);\s*if bytes\.len\(\) < " + NUM + r" \{")
grab("src_open_min_len_v3", "src/raw/mod.rs", r"if version >= 3 && bytes\.len\(\) < " + NUM + r" \{")


def shifts(name, path, rx):
    try:
        m = re.search(rx, read(path), re.S)
    except OSError:
        m = None
    if not m:
        missing.append("%s (%s)" % (name, path))
        return
    vals = [int(x) for x in re.findall(r"n < 1 << (\d+)", m.group(0))]
    rets = [int(x) for x in re.findall(r"\{\s*(\d+)\s*\}", m.group(0))]
    items.append((name + "_shifts", vals))
    items.append((name + "_results", rets))


shifts("src_pack_size", "src/bytes.rs", r"pub fn pack_size\(n: u64\) -> u8 \{.*?\n\}")


def table(name, path, rx):
    try:
        m = re.search(rx, read(path), re.S)
    except OSError:
        m = None
    if not m:
        missing.append("%s (%s)" % (name, path))
        return
    body = m.group(1)
    vals = []
    # tokens: byte literals b'..' (with escapes), numbers; line comments skipped
    tok = re.compile(r"//[^\n]*|b'(\\x[0-9a-fA-F]{2}|\\.|[^\\])'|(0x[0-9a-fA-F]+|\d+)")
    for mm in tok.finditer(body):
        if mm.group(1) is not None:
            c = mm.group(1)
            if c.startswith("\\x"):
                vals.append(int(c[2:], 16))
            elif c.startswith("\\"):
                vals.append({"n": 10, "r": 13, "t": 9, "0": 0, "\\": 92, "'": 39, '"': 34}[c[1]])
            else:
                vals.append(ord(c))
        elif mm.group(2) is not None:
            vals.append(num(mm.group(2)))
    items.append((name, vals))


table("src_COMMON_INPUTS", "src/raw/common_inputs.rs", r"pub const COMMON_INPUTS: \[u8; 256\] = \[(.*?)\];")
table("src_COMMON_INPUTS_INV", "src/raw/common_inputs.rs", r"pub const COMMON_INPUTS_INV: \[u8; 256\] = \[(.*?)\];")

# the node-cache hash function is not a constant but code: translated by tools/rusthash.py
sys.path.insert(0, os.path.dirname(os.path.abspath(__file__)))
import rusthash
hash_lines = []
try:
    hash_lines = rusthash.translate(read("src/raw/registry.rs"))
except (rusthash.Untranslatable, OSError) as ex:
    missing.append("Registry::hash (src/raw/registry.rs): outside the translatable subset: %s" % (ex,))

found = dict(items)
# shape checks: an extraction that matched something else counts as not found
for nm, ln in (("src_pack_size_shifts", 7), ("src_pack_size_results", 8), ("src_COMMON_INPUTS", 256), ("src_COMMON_INPUTS_INV", 256)):
    if nm in found and len(found[nm]) != ln:
        del found[nm]
if WRITE_PINNED:
    if missing:
        sys.stderr.write("srcparams --write-pinned: not found: " + "; ".join(missing) + "\n")
        sys.exit(1)
    json.dump({"items": found, "order": [n for n, _ in items], "hash": hash_lines}, open(PINNED_PATH, "w"), indent=0)
    PINNED = json.load(open(PINNED_PATH))
if not PINNED:
    sys.stderr.write("srcparams: tools/srcparams_pinned.json is missing\n")
    sys.exit(1)
fallbacks = []
final = []
for nm in PINNED["order"]:
    if nm in found:
        final.append((nm, found[nm]))
    else:
        final.append((nm, PINNED["items"][nm]))
        fallbacks.append(nm)
if not hash_lines:
    hash_lines = PINNED["hash"]
    fallbacks.append("Registry::hash")

lines = ["(* GENERATED by tools/srcparams.py from the current sources of /repo — do not edit. *)",
         "From Coq Require Import NArith List.", "Import ListNotations.", "Open Scope N_scope.", ""]
for name, v in final:
    if isinstance(v, list):
        lines.append("Definition %s : list N := [%s]." % (name, "; ".join(str(x) for x in v)))
    else:
        lines.append("Definition %s : N := %d." % (name, v))
lines.append("")
lines.append("(* Registry::hash, translated by tools/rusthash.py; the bucket is src_hash_raw ... mod table_size *)")
lines += hash_lines
txt = "\n".join(lines) + "\n"
os.makedirs(os.path.dirname(out), exist_ok=True)
if not os.path.exists(out) or open(out).read() != txt:
    open(out, "w").write(txt)
json.dump({"found": sorted(found), "fallback_to_pinned": fallbacks, "detail": missing},
          open(os.path.join(os.path.dirname(out), "srcparams_report.json"), "w"), indent=1)
if fallbacks:
    print("srcparams: not located in the current source, pinned value used (tie by the differential run only): " + ", ".join(fallbacks))
