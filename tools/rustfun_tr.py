#!/usr/bin/env python3
"""rustfun_tr.py — typed translation of the parsed Rust subset to a small computation tree and its
Gallina text.  Used by tools/rustfun.py.

Values are N (integers, newtype structs over an integer, lengths of slices), bool, option N.
Every integer value carries its Rust type and an interval [lo, hi]; an operation is emitted with
a run-time check (-> res, Panic) only when the interval analysis cannot exclude the overflow,
underflow, zero divisor, over-long shift or out-of-range table index.

Computation tree (Comp):
  ('ret', code) | ('panic',) | ('let', x, code, K) | ('bind', x, Comp, K) | ('raw', code)   -- res-typed call
  ('if', cond, K1, K2) | ('mopt', code, x, Ksome, Knone)
"""
from rustfun_parse import Untranslatable, P, INT_BITS, parse_type, parse_params, split_commas

KEYWORDS = {"at", "end", "in", "as", "fun", "let", "match", "with", "return", "if", "then", "else", "for", "forall",
            "exists", "Type", "Set", "Prop", "fix", "cofix", "where", "using", "do", "mod", "N", "Ok", "Panic", "Err",
            "Some", "None", "true", "false", "nth", "bind", "len", "max", "min", "val"}
TAGS = {"OneTransNext": 3, "OneTrans": 2, "AnyTrans": 0, "EmptyFinal": 1}


def tmax(ty):
    return (1 << INT_BITS[ty]) - 1


def is_int(ty):
    return ty in INT_BITS or ty == "int?"


class ListTy(tuple):
    """the type of a list value: equal to ("bytes",) everywhere, plus the element type (u8 by default)"""
    def __new__(cls, elem):
        o = tuple.__new__(cls, ("bytes",))
        o.elem = elem
        return o


def elem_of(ty):
    return getattr(ty, "elem", "u8")


class V:
    def __init__(self, code, ty, lo=None, hi=None, var=None, tf=(), ff=(), opt=None):
        self.code, self.ty, self.lo, self.hi, self.var = code, ty, lo, hi, var
        self.tf, self.ff = list(tf), list(ff)
        self.opt = opt      # for option values built here: ('some', V) | ('none',) | ('cond', condcode, V)

    @property
    def const(self):
        return self.lo if (self.lo is not None and self.lo == self.hi) else None

    def with_(self, **kw):
        v = V(self.code, self.ty, self.lo, self.hi, self.var, self.tf, self.ff, self.opt)
        for k, x in kw.items():
            setattr(v, k, x)
        return v


def num(v, ty):
    return V(str(v), ty, v, v)


def wrap(pre, comp):
    for it in reversed(pre):
        comp = (it[0], it[1], it[2], comp)
    return comp


def map_leaves(c, f):
    """apply f to every ('ret', code) leaf"""
    k = c[0]
    if k == "ret":
        return f(c)
    if k in ("panic", "raw"):
        return c
    if k in ("let", "bind", "letp"):
        return (k, c[1], c[2] if k != "bind" else c[2], map_leaves(c[3], f))
    if k == "if":
        return (k, c[1], map_leaves(c[2], f), map_leaves(c[3], f))
    if k == "mopt":
        return (k, c[1], c[2], map_leaves(c[3], f), map_leaves(c[4], f))
    if k == "menum":
        return (k, c[1], [(a[0], a[1], map_leaves(a[2], f)) for a in c[2]])
    raise AssertionError(k)


def is_pure(c):
    k = c[0]
    if k == "ret":
        return True
    if k in ("panic", "raw", "bind"):
        return False
    if k == "let":
        return is_pure(c[3])
    if k == "if":
        return is_pure(c[2]) and is_pure(c[3])
    if k == "mopt":
        return is_pure(c[3]) and is_pure(c[4])
    if k == "menum":
        return all(is_pure(a[2]) for a in c[2])
    if k == "letp":
        return is_pure(c[3])
    raise AssertionError(k)


def pr(c, res, ind=2):
    """Gallina text of a Comp; res=True prints a term of type res T"""
    sp = " " * ind
    k = c[0]
    if k == "ret":
        return ("Ok %s" % paren(c[1])) if res else c[1]
    if k == "panic":
        return "Panic"
    if k == "raw":
        return c[1]
    if k == "let" and c[3] == ("ret", c[1]):
        return pr(("ret", c[2]), res, ind)
    if k == "let":
        return "let %s := %s in\n%s%s" % (c[1], c[2], sp, pr(c[3], res, ind))
    if k == "bind" and c[3] == ("ret", c[1]):
        return pr(c[2], True, ind)
    if k == "bind":
        return "do %s <- %s;\n%s%s" % (c[1], pr_atom(c[2], True, ind + 2), sp, pr(c[3], res, ind))
    if k == "if":
        return "if %s\n%sthen %s\n%selse %s" % (c[1], sp, pr_atom(c[2], res, ind + 2), sp, pr_atom(c[3], res, ind + 2))
    if k == "letp":
        return "let '%s := %s in\n%s%s" % (c[1], c[2], sp, pr(c[3], res, ind))
    if k == "menum":
        arms = "".join("\n%s| %s => %s" % (sp, " ".join([a[0]] + a[1]), pr_atom(a[2], res, ind + 4)) for a in c[2])
        return "match %s with%s\n%send" % (c[1], arms, sp)
    if k == "mopt":
        return "match %s with\n%s| Some %s => %s\n%s| None => %s\n%send" % (
            c[1], sp, c[2], pr_atom(c[3], res, ind + 4), sp, pr_atom(c[4], res, ind + 4), sp)
    raise AssertionError(k)


def pr_atom(c, res, ind):
    s = pr(c, res, ind)
    if c[0] == "ret" and not res:
        return s if atomic(s) else "(%s)" % s
    if c[0] in ("panic",) or (c[0] == "raw" and atomic(s)):
        return s
    return "(%s)" % s


def atomic(s):
    return s.replace("_", "a").replace("'", "a").isalnum() or (s.startswith("(") and s.endswith(")") and balanced(s[1:-1]))


def balanced(s):
    d = 0
    for ch in s:
        if ch == "(":
            d += 1
        elif ch == ")":
            d -= 1
            if d < 0:
                return False
    return d == 0


def paren(s):
    return s if atomic(s) else "(%s)" % s


class FnInfo:
    def __init__(self):
        self.coqname = None
        self.params = []       # (gallina name, coq type, rust type)
        self.rty = None        # rust result type (after erasure): 'u8'.. 'bool' ('opt',T) 'tag'
        self.comp = None
        self.pure = True
        self.lo = self.hi = None
        self.selfkind = None
        self.text = None
        self.note = ""

    def coq_rtype(self, res=None):
        t = coq_type(self.rty)
        return ("res %s" % paren(t)) if (self.pure is False if res is None else res) else t


def coq_type(ty):
    if ty == "bool":
        return "bool"
    if isinstance(ty, tuple):
        if ty[0] == "opt":
            return "option %s" % paren(coq_type(ty[1]))
        if ty[0] in ("bytes", "str"):
            return "list N"
        if ty[0] in ("unit", "unitv"):
            return "unit"
        if ty[0] == "coq":
            return ty[1]
        if ty[0] == "tuple":
            return "(%s)" % " * ".join(paren(coq_type(t)) for t in ty[1])
        if ty[0] == "enum":
            return ("src_%s %s" % (ty[1], " ".join(ty[2]))).strip()
        if ty[0] == "aut":
            return "src_aut"
        if ty[0] == "ord":
            return "comparison"
    return "N"


def erase(ty):
    if isinstance(ty, tuple) and ty[0] == "nt":
        return ty[2]
    if isinstance(ty, tuple) and ty[0] == "opt":
        return ("opt", erase(ty[1]))
    if isinstance(ty, tuple) and ty[0] == "tuple":
        return ("tuple", tuple(erase(t) for t in ty[1]))
    return ty


class Ctx:
    def __init__(self, tr, fileidx, owner, rty, mode, forced_opt):
        self.tr, self.ix, self.owner, self.rty, self.mode, self.opt = tr, fileidx, owner, rty, mode, forced_opt
        self.used = set(["TABLE", "TABLE16"])
        self.rets = []
        self.setter = False
        self.ext_used = set()

    def fresh(self, base):
        base = "".join(ch if ch.isalnum() or ch == "_" else "_" for ch in base)
        if base in KEYWORDS or base.startswith("src_") or not base or base[0].isdigit():
            base = base + "_"
        n, k = base, 0
        while n in self.used:
            k += 1
            n = "%s_%d" % (base, k)
        self.used.add(n)
        return n


class Translator:
    """files: dict relative path -> FileIndex; flags: overflow checks / debug assertions of the harness build"""

    def __init__(self, files, ovf=True, dbg=True, tables=None, forced_res=None):
        self.files, self.ovf, self.dbg = files, ovf, dbg
        self.tables = tables or {}
        self.memo = {}
        self.stack = []
        self.forced_res = forced_res or {}    # coqname -> True: keep the res type of the pinned revision
        self.used_enums = {}
        self.reserved = {}     # coq names of the targets -> (owner, fn) when the target IS that whole function
        # tables generated at build time (build.rs -> crc32_table.rs): parameters of the functions that use them;
        # their dimensions are part of their Rust types ([u32; 256], [[u32; 256]; 16])
        self.ext_tables = {"TABLE": ([256], "u32"), "TABLE16": ([16, 256], "u32")}

    def all_idx(self, first):
        return [first] + [ix for ix in self.files.values() if ix is not first]

    # ------------------------------------------------------------ function level
    def find_fn(self, ix, owner, name):
        if (owner, name) in ix.fns:
            return ix, ix.fns[(owner, name)]
        for f, other in self.files.items():
            if f in ("src/raw/mod.rs", "src/bytes.rs") and (owner, name) in other.fns and owner is not None:
                return other, other.fns[(owner, name)]
        return None, None

    def get_fn(self, ix, owner, name):
        """translate (memoised) the function `name` of impl `owner` (None = free function) of file index ix"""
        fix, item = self.find_fn(ix, owner, name)
        if item is None:
            raise Untranslatable("function %s%s not found" % ((owner + "::") if owner else "", name))
        key = (id(fix), owner, name)
        if key in self.memo:
            r = self.memo[key]
            if isinstance(r, Exception):
                raise r
            return r
        if key in self.stack:
            raise Untranslatable("recursion through " + name)
        self.stack.append(key)
        try:
            cn = "src_fn_%s%s" % ((owner + "_") if owner else "", name)
            if cn in self.reserved and self.reserved[cn] != (owner, name):
                cn += "__fn"
            r = self.translate_fn(fix, item, cn)
        except Untranslatable as ex:
            self.memo[key] = ex
            raise
        except (RecursionError, KeyError, IndexError, TypeError, ValueError, AttributeError, AssertionError) as ex:
            ex2 = Untranslatable("translator error %s: %s" % (type(ex).__name__, ex))
            self.memo[key] = ex2
            raise ex2
        finally:
            self.stack.pop()
        self.memo[key] = r
        return r

    def translate_fn(self, ix, item, coqname, mode=("fn",), params_decl=None, opt=False, rty_decl=None):
        info = FnInfo()
        info.coqname = coqname
        idxs = self.all_idx(ix)
        gens = list(getattr(item, "generics", []))
        if mode[0] == "selfpair":
            gens = []
        # fn-level generic parameters bounded by AsRef<[u8]> are byte strings
        fg = getattr(item, "fn_gen", [])
        asref = set()
        if ("id", "AsRef") in fg:
            from rustfun_parse import generic_names
            asref = set(generic_names(fg))
        try:
            rty = self.rtype(item.ret, ix, gens) if item.ret else ("unit",)
        except Untranslatable:
            if mode[0] != "selfpair":
                raise
            rty = ("unit",)
        if rty == ("self",):
            rty = self.self_type(ix, item.owner)
        ctx = Ctx(self, ix, item.owner, erase(rty), mode, opt)
        ctx.gens = gens
        if mode[0] == "selfpair":
            ctx.rty = ("tuple", tuple(("enum", "Bound", ()) for _ in mode[1]))
        env = {"%decl": frozenset()}
        params = []
        for g in gens:
            ctx.used.add(g)
            params.append((g, "src_aut", ("aut", g)))
        body = P(item.body + [("op", "}")]).block()
        for pn, pt in parse_params(item.params):
            if pn == "self" and item.owner == "Ref":
                info.selfkind = pt
                env["self"] = V(gens[0], ("aut", gens[0]))
                continue
            if pn == "self":
                info.selfkind = pt
                st = self.self_type(ix, item.owner)
                if st[0] == "tup":
                    for i, ft in enumerate(st[2]):
                        fty = self.rtype(ft, ix, gens)
                        if fty[0] == "aut":
                            env["self.%d" % i] = V(fty[1], fty)
                        else:
                            g = ctx.fresh("self%d" % i)
                            env["self.%d" % i] = self.param_value(g, fty, "self.%d" % i)
                            params.append((g, coq_type(erase(fty)), fty))
                    continue
                if st[0] == "enum":
                    g = ctx.fresh("self_")
                    env["self"] = V(g, ("enum", item.owner, ()))
                    self.rtype([("id", item.owner)], ix, gens)
                    params.append((g, coq_type(("enum", item.owner, ())), ("enum", item.owner, ())))
                    continue
                if st[0] == "nt":
                    g = ctx.fresh("self0")
                    env["self.0"] = V(g, st[2], 0, tmax(st[2]), var="self.0")
                    params.append((g, "N", st))
                    if pt == "mut" and rty == ("unit",):
                        ctx.setter = True
                        ctx.rty = st[2]
                elif st[0] == "rec":
                    for f, ft in st[2].items():
                        try:
                            fty = self.rtype(ft, ix, gens)
                        except Untranslatable:
                            continue
                        if erase(fty) in INT_BITS or fty == "bool" or fty == ("bytes",) or fty == ("str",) or (mode[0] == "selfpair" and f in mode[1]):
                            g = ctx.fresh("self_" + f)
                            env["self." + f] = self.param_value(g, fty, "self." + f)
                            params.append((g, coq_type(erase(fty)), fty))
                            if pt == "mut" and rty == ("unit",) and len(st[2]) == 1 and erase(fty) in INT_BITS:
                                ctx.setter = "self." + f
                                ctx.rty = erase(fty)
                continue
            try:
                ty = self.rtype(pt, ix, gens)
            except Untranslatable:
                ty = ("named", "?")
            if len(pt) == 1 and pt[0][0] == "id" and pt[0][1] in asref:
                ty = ("bytes",)
            ptn = [x for x in pt if x not in (("op", "&"), ("id", "mut"))]
            if len(ptn) == 1 and ptn[0][0] == "id" and any(ptn[0][1] in x.records and len(x.records[ptn[0][1]]) > 1 for x in idxs) and pn != "_":
                rec = [x for x in idxs if ptn[0][1] in x.records][0].records[ptn[0][1]]
                env[pn] = V("", ("opaque",))
                for f, ft in rec.items():
                    try:
                        fty = self.rtype(ft, ix, gens)
                    except Untranslatable:
                        continue
                    if erase(fty) in INT_BITS or fty == "bool" or fty == ("bytes",):
                        g = ctx.fresh(pn + "_" + f)
                        env[pn + "." + f] = self.param_value(g, fty, pn + "." + f)
                        params.append((g, coq_type(erase(fty)), fty))
                continue
            if ty == ("bytes",) and params_decl is not None:
                ty = ("slice",)              # position functions only ever use the length of the data
            if pn == "_":
                if not (isinstance(ty, tuple) and ty[0] in ("named", "unit")):
                    params.append((ctx.fresh("unused"), coq_type(erase(ty)) if ty not in (("slice",), ("node",)) else "N", ty))
                continue
            if ty == ("slice",):
                g = ctx.fresh(pn + "_len")
                env[pn] = V(g, ("slice",), 0, tmax("usize"))
                params.append((g, "N", ty))
            elif ty == ("node",):
                env[pn] = V("", ("node",))
                for f, fty in NODE_FIELDS:
                    g = ctx.fresh(pn + "_" + f)
                    fty2 = parse_type([("id", fty)], idxs)
                    env[pn + "." + f] = self.param_value(g, fty2, None)
                    params.append((g, coq_type(erase(fty2)), fty2))
            elif isinstance(ty, tuple) and ty[0] in ("named", "unit"):
                # a parameter of a type outside the subset is tolerated as long as the body never touches it
                env[pn] = V("", ("opaque",))
            else:
                g = ctx.fresh(pn)
                env[pn] = self.param_value(g, ty, pn)
                params.append((g, coq_type(erase(ty)), ty))
        if params_decl is not None:
            # position functions: a declared parameter list (name, rust source) in a fixed order
            newp = []
            byname = {}
            for k, v in env.items():
                if isinstance(v, V):
                    byname[k] = v
            params = []
            for gname, src, ty in params_decl:
                ty2 = parse_type([("id", ty)], idxs)
                if src == "data.len()":
                    key = [k for k, v in env.items() if isinstance(v, V) and v.ty == ("slice",)]
                    if key:
                        env[key[0]] = V(gname, ("slice",), 0, tmax("usize"))
                elif src.endswith(".len()"):
                    env[src[:-6]] = V(gname, ("slice",), 0, tmax("usize"))
                elif src in env:
                    old = env[src]
                    env[src] = old.with_(code=gname)
                else:
                    env[src] = self.param_value(gname, ty2, src)
                ctx.used.add(gname)
                params.append((gname, coq_type(erase(ty2)), ty2))
            # whatever the body uses beyond the declared list is an error: those values keep an empty code
            declared = set(g for g, _, _ in params_decl)
            for k, v in list(env.items()):
                if isinstance(v, V) and v.code and v.code not in declared:
                    env[k] = v.with_(code="%UNDECLARED:" + k)
        if rty_decl is not None:
            ctx.rty = rty_decl
        env0 = dict(env)
        stmts, tail = body
        if mode[0] == "after":
            pos = [i for i, s in enumerate(stmts) if s[0] == "let" and s[1] == mode[1]]
            if not pos:
                raise Untranslatable("no `let %s = ...;` in %s" % (mode[1], item.name))
            stmts = stmts[pos[0] + 1:]
        if mode[0] == "cond":
            # the condition of the k-th top-level `if` statement; earlier `let`s are translated when they are
            # inside the subset (reads of the data are not: the values they bind must be declared parameters)
            seen, comp = 0, None
            for st in stmts:
                if st[0] == "expr" and st[1][0] == "if":
                    seen += 1
                    if seen == mode[1]:
                        pre, c = self.expr(st[1][1], env, ctx, "bool")
                        if c.ty != "bool":
                            raise Untranslatable("condition is not a bool")
                        ctx.rets.append(c)
                        comp = wrap(pre, ("ret", c.code))
                        break
                elif st[0] == "lettuple":
                    try:
                        self.let_tuple(st, env, ctx)
                    except Untranslatable:
                        pass
                elif st[0] == "let" and st[1] not in env:
                    try:
                        pre, v = self.expr(st[3], env, ctx)
                        if not pre:
                            env[st[1]] = v.with_(var=None)
                    except Untranslatable:
                        pass
            if comp is None:
                raise Untranslatable("no %d-th `if` statement in %s" % (mode[1], item.name))
        elif mode[0] == "index":
            e = find_index(("block", stmts, tail), mode[1])
            if e is None:
                raise Untranslatable("no index expression %s[..] in %s" % (mode[1], item.name))
            pre, v = self.expr(e, env, ctx, "usize")
            v = self.coerce(v, "usize")
            ctx.rets.append(v)
            comp = wrap(pre, ("ret", v.code))
        else:
            comp = self.stmts(stmts, tail, env, ctx, ("fnend",))
        txt = pr(comp, False) if is_pure(comp) else pr(comp, True)
        if "%UNDECLARED:" in txt:
            raise Untranslatable("uses %s, which is not among the declared parameters" % txt.split("%UNDECLARED:")[1].split()[0].rstrip(")"))
        ext = [t for t in ("TABLE", "TABLE16") if t in ctx.ext_used]
        info.ext = ext
        params = [(t, "list N" if len(self.ext_tables[t][0]) == 1 else "list (list N)", ("ext", t)) for t in ext] + params
        info.params = params
        info.keys = {}
        for kk, vv in env0.items():
            if isinstance(vv, V) and vv.code:
                info.keys[vv.code] = kk
        info.rust_params = [pn for pn, _ in parse_params(item.params)]
        info.rty = ctx.rty if not ctx.opt else ("opt", ctx.rty)
        info.comp = comp
        info.pure = is_pure(comp)
        if not info.pure or self.forced_res.get(coqname):
            info.pure = False
        ints = [r for r in ctx.rets if r.lo is not None]
        if ints and len(ints) == len(ctx.rets):
            info.lo, info.hi = min(r.lo for r in ints), max(r.hi for r in ints)
        info.text = self.print_fn(info)
        return info

    def rtype(self, toks, ix, gens):
        """Rust type tokens -> translator type (generic parameters `gens` of the impl are component automata)"""
        toks = [x for x in toks if x not in (("op", "&"), ("id", "mut"), ("id", "dyn"))]
        idxs = self.all_idx(ix)
        if not toks:
            return ("unit",)
        if toks[0] == ("op", "("):
            if len(toks) == 2:
                return ("unitv",)
            parts = split_commas(toks[1:-1])
            return ("tuple", tuple(self.rtype(t, ix, gens) for t in parts))
        if toks[0] == ("op", "["):
            el = toks[1][1] if len(toks) > 1 and toks[1][0] == "id" else "u8"
            return ListTy(el) if el in INT_BITS else ("bytes",)
        while len(toks) >= 3 and toks[0][0] == "id" and toks[1] == ("op", "::") and toks[0][1] not in gens:
            toks = toks[2:]
        k, v = toks[0]
        if k != "id":
            raise Untranslatable("type")
        if v == "Ordering":
            return ("ord",)
        if v in gens:
            if len(toks) >= 3 and toks[1] == ("op", "::") and toks[2] == ("id", "State"):
                return ("coq", "src_St %s" % v)
            if len(toks) == 1:
                return ("aut", v)
        if v == "Vec":
            el = toks[2][1] if len(toks) > 2 and toks[2][0] == "id" else "u8"
            return ListTy(el) if el in INT_BITS else ("bytes",)
        if v in ("String", "str"):
            return ("str",)
        if v == "char":
            return "u32"
        if v == "Option":
            return ("opt", self.rtype(toks[2:-1], ix, gens))
        for x in idxs:
            if v in x.newtypes:
                return ("nt", v, x.newtypes[v])
        for x in idxs:
            if v in x.records and len(x.records[v]) == 1:
                (fname, ft), = x.records[v].items()
                try:
                    fty = parse_type(ft, idxs)
                except Untranslatable:
                    fty = None
                if fty in INT_BITS:
                    return fty
        for x in idxs:
            if v in x.tuples or v in x.enums:
                gdef = x.generics.get(v, [])
                args = split_commas(toks[2:-1]) if len(toks) > 1 and toks[1] == ("op", "<") else []
                sub = dict(zip(gdef, args))
                def subst(ft):
                    out = []
                    for t in ft:
                        if t[0] == "id" and t[1] in sub:
                            out += sub[t[1]]
                        else:
                            out.append(t)
                    return out
                if v in x.enums:
                    names = tuple(a[0][1] for a in args if len(a) == 1 and a[0][0] == "id")
                    self.used_enums.setdefault(v, (x, gdef))
                    return ("enum", v, names)
                fields = [self.rtype(subst(ft), ix, gens) for ft in x.tuples[v][1]]
                if len(fields) == 1:
                    return fields[0]
                return ("tuple", tuple(fields))
        return parse_type(toks, idxs)

    def enum_info(self, name, ix, gens):
        """[(variant, [field types])] of an enum, with the impl's generic names"""
        for x in self.all_idx(ix):
            if name in x.enums:
                gdef, variants = x.enums[name]
                out = []
                for vn, fields in variants:
                    if fields is None:
                        raise Untranslatable("struct-like enum variant")
                    out.append((vn, [self.rtype(f, x, gdef if gens is None else gdef) for f in fields]))
                return gdef, out
        raise Untranslatable("enum %s" % name)

    def enum_decls(self):
        """Gallina inductive types for the enums the translated functions use"""
        out = []
        for name, (x, gdef) in sorted(self.used_enums.items()):
            try:
                _, variants = self.enum_info(name, x, gdef)
            except Untranslatable:
                continue
            params = "".join(" (%s : src_aut)" % g for g in gdef)
            ctors = []
            for vn, fields in variants:
                args = "".join(" (x%d : %s)" % (i, coq_type(erase(f))) for i, f in enumerate(fields))
                ctors.append("| src_%s_%s%s" % (name, vn, args))
            out.append("Inductive src_%s%s : Type :=\n  %s." % (name, params, "\n  ".join(ctors)))
        return out

    def print_fn(self, info):
        groups = []
        for g, ct, _ in info.params:
            if groups and groups[-1][1] == ct:
                groups[-1][0].append(g)
            else:
                groups.append(([g], ct))
        ps = " ".join("(%s : %s)" % (" ".join(gs), ct) for gs, ct in groups)
        return "Definition %s%s : %s :=\n  %s." % (info.coqname, (" " + ps) if ps else "", info.coq_rtype(),
                                                 pr(info.comp, not info.pure))

    def self_type(self, ix, owner):
        for x in self.all_idx(ix):          # the file of the function first: names repeat across files
            if owner in x.newtypes:
                return ("nt", owner, x.newtypes[owner])
            if owner in x.tuples:
                return ("tup", owner, x.tuples[owner][1])
            if owner in x.records:
                return ("rec", owner, x.records[owner])
            if owner in x.enums:
                return ("enum", owner)
        raise Untranslatable("self of type %s" % owner)

    def param_value(self, g, ty, var):
        e = erase(ty)
        if e in INT_BITS:
            v = V(g, ty if isinstance(ty, tuple) else e, 0, tmax(e), var=var)
            return v
        if e == "bool":
            return V(g, "bool", var=var)
        if isinstance(e, tuple) and e[0] == "opt":
            return V(g, e, var=var)
        if e == ("bytes",) or e == ("str",):
            return V(g, e, 0, tmax("usize"), var=var)
        if isinstance(e, tuple) and e[0] in ("coq", "tuple", "enum", "unitv", "aut"):
            return V(g, e, var=var)
        raise Untranslatable("parameter of type %s" % (ty,))

    # ------------------------------------------------------------ statements
    def enter(self, env, facts=()):
        env = dict(env)
        env["%decl"] = frozenset()
        return self.refine(env, facts)

    def leave(self, inner, outer):
        out = {}
        for k, v in outer.items():
            if k == "%decl":
                out[k] = v
            elif k in inner["%decl"]:
                out[k] = v
            else:
                out[k] = inner.get(k, v)
        return out

    def refine(self, env, facts):
        if not facts:
            return env
        env = dict(env)
        for name, lo, hi in facts:
            if name.startswith("%len:"):
                name = name[5:]
            v = env.get(name)
            if isinstance(v, V) and v.lo is not None:
                nlo, nhi = max(v.lo, lo), min(v.hi, hi)
                if nlo > nhi:          # unreachable branch: any interval is sound
                    nlo, nhi = v.lo, v.hi
                env[name] = v.with_(lo=nlo, hi=nhi)
        return env

    def stmts(self, stmts, tail, env, ctx, k, i=0):
        wants_value = (k[0] == "value") or (k[0] == "fnend" and ctx.rty != ("unit",) and not ctx.setter and ctx.mode[0] not in ("let", "arg"))
        if tail is not None and not wants_value and i == 0:
            stmts, tail = stmts + [("expr", tail)], None
        if i == len(stmts):
            return self.end(tail, env, ctx, k)
        st = stmts[i]

        def rest(env2):
            return self.stmts(stmts, tail, env2, ctx, k, i + 1)
        kind = st[0]
        if kind == "unparsed":
            raise Untranslatable("statement outside the subset: " + st[1])
        if kind == "let":
            _, name, ty, e = st
            exp = None
            if ty is not None:
                exp = parse_type(ty, ctx.tr.all_idx(ctx.ix))
            if ctx.mode[0] == "let" and name == ctx.mode[1]:
                pre, v = self.expr(e, env, ctx, erase(exp) if exp else ctx.rty)
                v = self.coerce(v, ctx.rty)
                ctx.rets.append(v)
                return wrap(pre, ("ret", "Some %s" % paren(v.code) if ctx.opt else v.code))
            pre, v = self.expr(e, env, ctx, erase(exp) if exp and not isinstance(exp, tuple) else None)
            if exp is not None and not isinstance(exp, tuple):
                v = self.coerce(v, exp)
            return wrap(pre, self.bind_local(name, v, env, ctx, rest, declare=True))
        if kind == "for":
            return self.for_loop(st, env, ctx, rest)
        if kind == "while":
            return self.while_loop(st, env, ctx, rest)
        if kind == "assign" and st[1][0] == "index":
            _, lhs, op, e = st
            if lhs[1][0] != "path" or len(lhs[1][1]) != 1 or lhs[1][1][0] not in env:
                raise Untranslatable("element assignment target")
            name = lhs[1][1][0]
            cur = env[name]
            if cur.ty != ("bytes",):
                raise Untranslatable("element assignment into %s" % (cur.ty,))
            pre, ixv = self.expr(lhs[2], env, ctx, "usize")
            ixv = self.coerce(ixv, "usize")
            rhs = ("bin", op, lhs, e) if op else e
            p2, v = self.expr(rhs, env, ctx, "u8")
            v = self.coerce(v, "u8")
            if erase(v.ty) != "u8":
                raise Untranslatable("element of type %s" % (v.ty,))
            pre = pre + p2
            n = self.blen(cur)
            if ixv.hi >= n.lo:
                p3, ixv = self.chk("(%s <? %s)" % (ixv.code, n.code), ixv.code, "usize", ixv.lo, min(ixv.hi, max(0, n.hi - 1)), ctx)
                pre = pre + p3
            nv = V("(set_nth %s (N.to_nat %s) %s)" % (cur.code, ixv.code, v.code), ("bytes",), cur.lo, cur.hi)
            return wrap(pre, self.bind_local(name, nv, env, ctx, rest, declare=False))
        if kind == "assign":
            _, lhs, op, e = st
            key = self.lvalue(lhs, env)
            cur = env[key]
            if op:
                pre, v = self.expr(("bin", op, lhs, e), env, ctx)
            else:
                pre, v = self.expr(e, env, ctx, erase(cur.ty))
                v = self.coerce(v, erase(cur.ty))
            if isinstance(cur.ty, tuple) and cur.ty[0] == "nt" and not isinstance(v.ty, tuple):
                v = v.with_(ty=cur.ty)
            return wrap(pre, self.bind_local(key, v, env, ctx, rest, declare=False))
        if kind == "return":
            if st[1] is None:
                if ctx.setter:
                    v = env[ctx.setter if isinstance(ctx.setter, str) else "self.0"]
                    ctx.rets.append(v)
                    return ("ret", v.code)
                raise Untranslatable("return without a value")
            if k[0] == "value":
                raise Untranslatable("return inside an expression block")
            if ctx.mode[0] == "let":
                if not ctx.opt:
                    raise Untranslatable("returns before `let %s`" % ctx.mode[1])
                return ("ret", "None")
            return self.tail(st[1], env, ctx, ("fnend",))
        if kind == "expr" and ctx.mode[0] == "arg":
            c = find_call(st[1], ctx.mode[1])
            if c is not None:
                if not c[3]:
                    raise Untranslatable("call of %s without an argument" % ctx.mode[1])
                pre, v = self.expr(c[3][0], env, ctx)
                ctx.rets.append(v)
                if erase(v.ty) != erase(ctx.rty):
                    raise Untranslatable("argument of %s has type %s" % (ctx.mode[1], v.ty))
                return wrap(pre, ("ret", v.code))
        if kind == "expr":
            e = st[1]
            if e[0] in ("if", "iflet", "match", "block"):
                outer = env
                return self.tail(e, env, ctx, ("cont", lambda env2: rest(env2)))
            if e[0] == "macro":
                nm = e[1]
                if nm in ("assert", "debug_assert"):
                    if nm == "debug_assert" and not self.dbg:
                        return rest(env)
                    toks = e[2]
                    # condition = tokens up to the first top-level comma
                    depth, cut = 0, len(toks)
                    for j, x in enumerate(toks):
                        if x[0] == "op" and x[1] in ("(", "[", "{"):
                            depth += 1
                        elif x[0] == "op" and x[1] in (")", "]", "}"):
                            depth -= 1
                        elif depth == 0 and x == ("op", ","):
                            cut = j
                            break
                    p = P(toks[:cut])
                    ce = p.expr()
                    pre, c = self.expr(ce, env, ctx, "bool")
                    if c.code == "true":
                        return wrap(pre, rest(env))
                    return wrap(pre, ("if", c.code, rest(self.refine(env, c.tf)), ("panic",)))
                if nm in ("panic", "unreachable", "unimplemented", "todo"):
                    return ("panic",)
                raise Untranslatable("macro %s!" % nm)
            if e[0] == "method" and e[1] == "push" and len(e[3]) == 1 and e[2][0] == "path" and len(e[2][1]) == 1 and \
                    e[2][1][0] in env and env[e[2][1][0]].ty == ("bytes",):
                cur = env[e[2][1][0]]
                el = elem_of(cur.ty)
                pre, v = self.expr(e[3][0], env, ctx, el)
                v = self.coerce(v, el)
                if erase(v.ty) != el:
                    raise Untranslatable("push of a %s" % (v.ty,))
                nv = V("(%s ++ [%s])" % (cur.code, v.code), cur.ty, cur.lo + 1, min(cur.hi + 1, tmax("usize")))
                return wrap(pre, self.bind_local(e[2][1][0], nv, env, ctx, rest, declare=False))
            if e[0] == "method" and e[2][0] == "path" and len(e[2][1]) == 1 and e[2][1][0] in env and \
                    isinstance(env[e[2][1][0]].ty, tuple) and env[e[2][1][0]].ty[0] == "nt":
                # a setter called on a local newtype value: the local takes the returned state
                recv = env[e[2][1][0]]
                f = self.get_fn(ctx.ix, recv.ty[1], e[1])
                if f.selfkind == "mut" and f.rty == recv.ty[2]:
                    pre, v = self.call_fn(f, [recv] + [None] * len(e[3]), e[3], env, ctx)
                    return wrap(pre, self.bind_local(e[2][1][0], v.with_(ty=recv.ty), env, ctx, rest, declare=False))
            pre, v = self.expr(e, env, ctx)
            return wrap(pre, rest(env))
        raise Untranslatable("statement " + kind)

    def let_tuple(self, st, env, ctx):
        """let (a, b) = if c { (x, y) } else { (u, v) };  or  let (a, b) = (x, y);  with pure components"""
        _, names, e = st
        def comps(e, env):
            if e[0] == "tuple" and len(e[1]) == len(names):
                out = []
                for x in e[1]:
                    pre, v = self.expr(x, env, ctx)
                    if pre:
                        raise Untranslatable("tuple component may panic")
                    out.append(v)
                return out
            if e[0] == "paren":
                return comps(e[1], env)
            if e[0] == "block" and not e[1] and e[2] is not None:
                return comps(e[2], env)
            if e[0] == "if" and e[3] is not None and not e[2][0] and not e[3][0]:
                pre, c = self.expr(e[1], env, ctx, "bool")
                if pre:
                    raise Untranslatable("tuple condition may panic")
                a, b = comps(e[2][1], env), comps(e[3][1], env)
                out = []
                for x, y in zip(a, b):
                    x, y = self.unify(x, y)
                    ty, lo, hi = self.join([x, y], None)
                    out.append(V("(if %s then %s else %s)" % (c.code, x.code, y.code), ty, lo, hi))
                return out
            raise Untranslatable("tuple pattern with this initialiser")
        for n, v in zip(names, comps(e, env)):
            env[n] = v

    def assigned_names(self, blk, env):
        """outer variables a loop body assigns (syntactic scan)"""
        out = []
        def walk(x):
            if isinstance(x, tuple):
                if x and x[0] == "assign":
                    t = x[1]
                    if t[0] == "index":
                        t = t[1]
                    try:
                        key = self.lvalue(t, env)
                        if key not in out:
                            out.append(key)
                    except Untranslatable:
                        pass
                if x and x[0] == "expr" and x[1][0] == "method" and x[1][2][0] == "path" and len(x[1][2][1]) == 1 and x[1][2][1][0] in env \
                        and (x[1][1].startswith("set_") or x[1][1] == "push") and x[1][2][1][0] not in out:
                    out.append(x[1][2][1][0])
                if x and x[0] in ("return",):
                    raise Untranslatable("return inside a loop")
                for y in x:
                    walk(y)
            elif isinstance(x, list):
                for y in x:
                    walk(y)
        walk(blk)
        return out

    def while_loop(self, st, env, ctx, rest):
        """while X.len() >= K { ...; X = &X[k..]; }  (1 <= k): at most `length X` iterations"""
        _, cond, blk = st
        stmts_, tail_ = blk
        if tail_ is not None or not stmts_:
            raise Untranslatable("while body")
        last = stmts_[-1]
        ok = (last[0] == "assign" and last[2] is None and last[1][0] == "path" and len(last[1][1]) == 1 and
              last[3][0] == "slice" and last[3][1] == last[1] and last[3][3] is None and last[3][2] is not None and
              last[3][2][0] == "num" and last[3][2][1] >= 1)
        if not ok:
            raise Untranslatable("while loop that does not end with `x = &x[k..]`")
        xname = last[1][1][0]
        for st2 in stmts_[:-1]:
            if st2[0] == "assign" and st2[1] == last[1]:
                raise Untranslatable("the sliced variable is assigned twice in the loop")
        if xname not in env or env[xname].ty != ("bytes",):
            raise Untranslatable("while over a non-slice")
        state = self.assigned_names(blk, env)
        x0 = env[xname]
        def attempt(types, for_cond):
            e2 = dict(env)
            e2["%decl"] = frozenset()
            snames = []
            for key, ty in zip(state, types):
                g = ctx.fresh(key.replace("self.", "self"))
                snames.append(g)
                cur = env[key]
                if ty == ("bytes",):
                    e2[key] = V(g, ty, 0, cur.hi, var=key)
                elif erase(ty) in INT_BITS:
                    e2[key] = V(g, ty, 0, tmax(erase(ty)), var=key)
                else:
                    e2[key] = V(g, ty, var=key)
            pc, c = self.expr(cond, e2, ctx, "bool")
            if pc or c.ty != "bool":
                raise Untranslatable("while condition may panic")
            if for_cond:
                return snames, c
            e3 = self.refine(e2, c.tf)
            def at_end(env_end):
                vs = [env_end[key] for key in state]
                return ("ret", "(%s)" % ", ".join(v.code for v in vs) if len(vs) > 1 else vs[0].code)
            body = self.stmts(stmts_, None, e3, ctx, ("cont", at_end))
            return snames, c, body, e2
        base = [env[key].ty for key in state]
        types = [("u64" if t == "int?" else t) for t in base]
        cn, c = attempt(types, True)
        sn, c2, body, e2 = attempt(types, False)
        def pat(ns):
            return "(%s)" % ", ".join(ns) if len(ns) > 1 else ns[0]
        init = pat([self.coerce(env[key], t).code for key, t in zip(state, types)])
        cfun = "(fun %s => %s)" % ("'" + pat(cn) if len(cn) > 1 else cn[0], c.code)
        env2 = dict(env)
        outs = []
        neg = self.refine(e2, c2.ff)
        for key, ty in zip(state, types):
            g = ctx.fresh(key.replace("self.", "self"))
            outs.append(g)
            if ty == ("bytes",):
                env2[key] = V(g, ty, 0, neg[key].hi if key == xname else env[key].hi, var=key)
            elif erase(ty) in INT_BITS:
                env2[key] = V(g, ty, 0, tmax(erase(ty)), var=key)
            else:
                env2[key] = V(g, ty, var=key)
        k = rest(env2)
        bind_out = (lambda t: ("letp", pat(outs), t, k) if len(outs) > 1 else ("let", outs[0], t, k))
        spat = "'" + pat(sn) if len(sn) > 1 else sn[0]
        if is_pure(body):
            code = "(src_while (length %s) %s (fun %s => %s) %s)" % (x0.code, cfun, spat, pr(body, False, 6), init)
            return bind_out(code)
        code = "(src_while_res (length %s) %s (fun %s => %s) %s)" % (x0.code, cfun, spat, pr(body, True, 6), init)
        t = ctx.fresh("t")
        return ("bind", t, ("raw", code), bind_out(t))

    def for_loop(self, st, env, ctx, rest):
        _, pat, it, blk = st
        # ---- what is iterated over
        pre = []
        kind = None
        if it[0] == "range":
            pa, a = self.expr(it[1], env, ctx, None)
            pb, b = self.expr(it[2], env, ctx, erase(a.ty) if a.ty in INT_BITS else None)
            a, b = self.unify(a, b)
            if a.ty == "int?":
                a, b = self.coerce(a, "usize"), self.coerce(b, "usize")
            if a.ty not in INT_BITS or len(pat) != 1:
                raise Untranslatable("range loop")
            pre = pa + pb
            lst = "(src_range %s %s)" % (a.code, b.code)
            elems = [(pat[0], V(None, a.ty, a.lo, max(a.lo, b.hi - 1)))]
            kind = "range"
        else:
            e, enum_, rev = it, False, False
            while e[0] == "method" and e[1] in ("iter", "enumerate", "rev", "into_iter", "cloned", "copied") and not e[3]:
                if e[1] == "enumerate":
                    enum_ = True
                if e[1] == "rev":
                    if enum_:
                        raise Untranslatable("enumerate after rev")
                    rev = True
                e = e[2]
            pre, b = self.expr(e, env, ctx)
            if b.ty != ("bytes",):
                raise Untranslatable("loop over %s" % (b.ty,))
            code = "(rev %s)" % b.code if rev else b.code
            hi = b.hi if b.hi is not None else tmax("usize")
            if enum_:
                if len(pat) != 2:
                    raise Untranslatable("enumerate pattern")
                lst = "(src_enumerate %s)" % code
                elems = [(pat[0], V(None, "usize", 0, max(0, hi - 1))), (pat[1], V(None, elem_of(b.ty), 0, tmax(elem_of(b.ty))))]
            else:
                if len(pat) != 1:
                    raise Untranslatable("loop pattern")
                lst = code
                elems = [(pat[0], V(None, elem_of(b.ty), 0, tmax(elem_of(b.ty))))]
        state = self.assigned_names(blk, env)
        if not state:
            # nothing outside changes: only possible panics of the body matter; not supported
            raise Untranslatable("loop without accumulators")
        # ---- the body as a function of (state, element); integer accumulators are widened to their type
        widen = set()
        def attempt(types):
            e2 = dict(env)
            e2["%decl"] = frozenset()
            snames = []
            for key, ty in zip(state, types):
                g = ctx.fresh(key.replace("self.", "self"))
                snames.append(g)
                cur = env[key]
                if ty == ("bytes",) and key in widen:
                    e2[key] = V(g, ty, 0, tmax("usize"), var=key)
                elif ty == ("bytes",):
                    e2[key] = V(g, ty, cur.lo, cur.hi, var=key)
                elif erase(ty) in INT_BITS:
                    e2[key] = V(g, ty, 0, tmax(erase(ty)), var=key)
                else:
                    e2[key] = V(g, ty, var=key)
            enames = []
            for nm, v in elems:
                g = ctx.fresh(nm or "unused")
                enames.append(g)
                if nm:
                    e2[nm] = v.with_(code=g, var=nm)
            finals = {}
            def at_end(env_end):
                vs = [env_end[key] for key in state]
                for key, v, ty in zip(state, vs, types):
                    if erase(v.ty) != erase(ty) and v.ty != "int?":
                        raise Untranslatable("accumulator %s changes its type" % key)
                    if ty == ("bytes",) and key not in widen and (v.lo, v.hi) != (env[key].lo, env[key].hi):
                        widen.add(key)
                        raise Untranslatable("accumulator %s changes its length" % key)
                return ("ret", "(%s)" % ", ".join(v.code for v in vs) if len(vs) > 1 else vs[0].code)
            body = self.stmts(blk[0], blk[1], e2, ctx, ("cont", at_end))
            return snames, enames, body
        cands = []
        base = [env[key].ty for key in state]
        flex = [i for i, t in enumerate(base) if t == "int?"]
        if not flex:
            cands = [base]
        else:
            pref = ([ctx.rty] if ctx.rty in INT_BITS else []) + ["u64", "usize", "u32", "u8", "u16"]
            for t in pref:
                cands.append([t if i in flex else b for i, b in enumerate(base)])
        last = None
        for types in cands + cands:
            try:
                snames, enames, body = attempt(types)
                break
            except Untranslatable as ex:
                last = ex
        else:
            raise last
        spat = "(%s)" % ", ".join(snames) if len(snames) > 1 else snames[0]
        epat = "(%s)" % ", ".join(enames) if len(enames) > 1 else enames[0]
        init = "(%s)" % ", ".join(self.coerce(env[key], t).code for key, t in zip(state, types)) if len(state) > 1 else self.coerce(env[state[0]], types[0]).code
        def lam(bodytxt, stname):
            s1 = "let '%s := %s in " % (spat, stname) if len(snames) > 1 else ""
            e1 = "let '%s := src_e in " % epat if len(enames) > 1 else ""
            return s1 + e1 + bodytxt
        env2 = dict(env)
        outs = []
        for key, ty in zip(state, types):
            g = ctx.fresh(key.replace("self.", "self"))
            outs.append(g)
            cur = env[key]
            if ty == ("bytes",) and key in widen:
                env2[key] = V(g, ty, 0, tmax("usize"), var=key)
            elif ty == ("bytes",):
                only_elem = True
                env2[key] = V(g, ty, cur.lo, cur.hi, var=key)
            elif erase(ty) in INT_BITS:
                env2[key] = V(g, ty, 0, tmax(erase(ty)), var=key)
            else:
                env2[key] = V(g, ty, var=key)
        opat = "(%s)" % ", ".join(outs) if len(outs) > 1 else outs[0]
        stn = snames[0] if len(snames) == 1 else "src_st"
        en = enames[0] if len(enames) == 1 else "src_e"
        if is_pure(body):
            code = "(fold_left (fun %s %s => %s) %s %s)" % (stn, en, lam(pr(body, False, 6), stn), lst, init)
            k = rest(env2)
            return wrap(pre, ("letp", opat, code, k) if len(outs) > 1 else ("let", outs[0], code, k))
        code = "(fold_left (fun src_acc %s => do %s <- src_acc; %s) %s (Ok %s))" % (en, stn, lam(pr(body, True, 6), stn), lst, init)
        t = ctx.fresh("t")
        k = rest(env2)
        k = ("letp", opat, t, k) if len(outs) > 1 else ("let", outs[0], t, k)
        return wrap(pre, ("bind", t, ("raw", code), k))

    def lvalue(self, lhs, env):
        if lhs[0] == "path" and len(lhs[1]) == 1 and lhs[1][0] in env:
            return lhs[1][0]
        if lhs[0] == "field" and lhs[1] == ("path", ["self"]) and ("self." + lhs[2]) in env:
            return "self." + lhs[2]
        raise Untranslatable("assignment target")

    def bind_local(self, name, v, env, ctx, rest, declare):
        env = dict(env)
        if declare:
            env["%decl"] = env["%decl"] | {name}
        if atomic(v.code) and not v.code.startswith("("):
            env[name] = v.with_(var=name)
            return rest(env)
        g = ctx.fresh(name.replace("self.", "self"))
        env[name] = v.with_(code=g, var=name, opt=None)
        return ("let", g, v.code, rest(env))

    def end(self, tail, env, ctx, k):
        if k[0] == "cont":
            return k[1](env)
        if tail is not None:
            return self.tail(tail, env, ctx, k)
        if k[0] == "fnend" and ctx.setter:
            v = env[ctx.setter if isinstance(ctx.setter, str) else "self.0"]
            ctx.rets.append(v)
            return ("ret", v.code)
        if k[0] == "fnend" and ctx.mode[0] in ("let", "arg"):
            raise Untranslatable("`%s` not reached on some path" % ctx.mode[1])
        raise Untranslatable("block without a value")

    def tail(self, e, env, ctx, k):
        """e in tail / statement position with continuation k"""
        kind = e[0]
        if kind == "paren" and k[0] != "cont":
            return self.tail(e[1], env, ctx, k)
        if kind == "block":
            inner = self.enter(env)
            return self.stmts(e[1], e[2], inner, ctx, self.kblock(k, env))
        if kind == "if":
            pre, c = self.expr(e[1], env, ctx, "bool")
            a = self.stmts(e[2][0], e[2][1], self.enter(env, c.tf), ctx, self.kblock(k, self.refine(env, c.tf)))
            if e[3] is None:
                if k[0] != "cont":
                    raise Untranslatable("if without else used as a value")
                b = k[1](self.refine(env, c.ff))
            else:
                b = self.stmts(e[3][0], e[3][1], self.enter(env, c.ff), ctx, self.kblock(k, self.refine(env, c.ff)))
            if c.code == "true":
                return wrap(pre, a)
            if c.code == "false":
                return wrap(pre, b)
            return wrap(pre, ("if", c.code, a, b))
        if kind == "iflet":
            pats, scrut, a, b = e[1], e[2], e[3], e[4]
            if len(pats) != 1 or pats[0][0] not in ("some", "none"):
                raise Untranslatable("if let pattern")
            pre, o = self.expr(scrut, env, ctx)
            return wrap(pre, self.opt_match(o, [(pats[0], a), (("wild",), b)], env, ctx, k))
        if kind == "match":
            pre, s = self.expr(e[1], env, ctx)
            arms = []
            for pats, guard, body in e[2]:
                if guard is not None:
                    raise Untranslatable("match guard")
                blk = (body[1], body[2]) if body[0] == "block" else ([], body)
                arms.append((pats, blk))
            if isinstance(s.ty, tuple) and s.ty[0] == "opt":
                flat = []
                for pats, blk in arms:
                    for p in pats:
                        flat.append((p, blk))
                return wrap(pre, self.opt_match(s, flat, env, ctx, k))
            if isinstance(s.ty, tuple) and s.ty[0] == "enum":
                return wrap(pre, self.enum_match(s, arms, env, ctx, k))
            if s.ty == "bool":
                s = V("(if %s then 1 else 0)" % s.code, "u8", 0, 1)
            if not is_int(s.ty):
                raise Untranslatable("match on a value of type %s" % (s.ty,))
            g = None
            if not (atomic(s.code) and not s.code.startswith("(")):
                g = ctx.fresh("scrut")
                s2 = s.with_(code=g)
            else:
                s2 = s
            comp = self.int_match(s2, arms, env, ctx, k)
            if g:
                comp = ("let", g, s.code, comp)
            return wrap(pre, comp)
        if k[0] == "cont":
            pre, v = self.expr(e, env, ctx)
            return wrap(pre, k[1](env))
        if ctx.mode[0] == "selfpair" and k[0] == "fnend" and e == ("path", ["self"]):
            vs = [env["self." + f] for f in ctx.mode[1]]
            return ("ret", "(%s)" % ", ".join(v.code for v in vs))
        # leaf value
        exp = ctx.rty if k[0] == "fnend" else k[1].get("exp")
        pre, v = self.expr(e, env, ctx, exp if not isinstance(exp, tuple) else None)
        if k[0] == "fnend":
            v = self.coerce(v, ctx.rty)
            ctx.rets.append(v)
        else:
            k[1]["vals"].append(v)
        return wrap(pre, ("ret", v.code))

    def kblock(self, k, outer):
        if k[0] == "cont":
            return ("cont", lambda inner: k[1](self.leave(inner, outer)))
        return k

    def block_as(self, blk, env, facts, ctx, k, outer):
        if blk is None:
            if k[0] != "cont":
                raise Untranslatable("missing else branch")
            return k[1](outer)
        return self.stmts(blk[0], blk[1], self.enter(env, facts), ctx, self.kblock(k, outer))

    def opt_match(self, o, arms, env, ctx, k):
        if not (isinstance(o.ty, tuple) and o.ty[0] == "opt"):
            raise Untranslatable("Some/None pattern on a non-option")
        some = none = None
        for p, blk in arms:
            if p[0] == "some" and some is None:
                some = (p[1], blk)
            elif p[0] == "none" and none is None:
                none = blk
            elif p[0] in ("wild", "bind"):
                if p[0] == "bind" and not (p[1][0].islower() or p[1][0] == "_"):
                    raise Untranslatable("pattern %s on an option" % p[1])
                if p[0] == "bind":
                    raise Untranslatable("binding pattern on an option")
                if some is None:
                    some = (None, blk)
                if none is None:
                    none = blk
            else:
                raise Untranslatable("pattern %s on an option" % (p,))
        if some is None or (none is None and k[0] != "cont"):
            raise Untranslatable("option match is not exhaustive")
        ety = o.ty[1]
        x = ctx.fresh(some[0] or "x")
        env_s = dict(env)
        if some[0]:
            env_s[some[0]] = V(x, ety, 0, tmax(ety), var=some[0]) if ety in INT_BITS else V(x, ety)
            if o.opt and o.opt[0] in ("some", "cond"):
                inner = o.opt[-1]
                env_s[some[0]] = env_s[some[0]].with_(lo=inner.lo, hi=inner.hi)
        a = self.block_as(some[1], env_s, (), ctx, k, env)
        b = self.block_as(none, env, (), ctx, k, env)
        if o.opt and o.opt[0] == "some":
            return ("let", x, o.opt[1].code, a)
        if o.opt and o.opt[0] == "none":
            return b
        return ("mopt", o.code, x if some[0] else "_", a, b)

    def enum_match(self, s, arms, env, ctx, k):
        ename, gnames = s.ty[1], s.ty[2]
        gdef, variants = self.enum_info(ename, ctx.ix, None)
        out = []
        for vn, ftys in variants:
            chosen = None
            for pats, blk in arms:
                for p in pats:
                    if p[0] == "ctor" and p[1][-1] == vn and (len(p[1]) == 1 or p[1][-2] in (ename, "Self")):
                        chosen = (p, blk)
                    elif p[0] == "ctor" and p[1][-1] not in [x[0] for x in variants]:
                        raise Untranslatable("pattern %s on the enum %s" % ("::".join(p[1]), ename))
                    elif p[0] == "bind" and p[1] in [x[0] for x in variants]:
                        if p[1] == vn:
                            chosen = (("ctor", [p[1]], []), blk)
                    elif p[0] == "bind" and not (p[1][0].islower() or p[1][0] == "_"):
                        raise Untranslatable("pattern %s on the enum %s" % (p[1], ename))
                    elif p[0] in ("wild", "bind"):
                        chosen = (p, blk)
                    elif p[0] not in ("ctor",):
                        raise Untranslatable("pattern %s on the enum %s" % (p, ename))
                    if chosen:
                        break
                if chosen:
                    break
            if chosen is None:
                raise Untranslatable("match on %s does not cover %s" % (ename, vn))
            p, blk = chosen
            e2 = dict(env)
            binders = []
            for i, ft in enumerate(ftys):
                nm = p[2][i] if p[0] == "ctor" and i < len(p[2]) else None
                if p[0] == "ctor" and len(p[2]) != len(ftys):
                    raise Untranslatable("pattern arity for %s::%s" % (ename, vn))
                if nm is None:
                    binders.append("_")
                else:
                    g = ctx.fresh(nm)
                    binders.append(g)
                    # generic names of the definition are those of the use (positional)
                    ft2 = ft
                    if isinstance(ft, tuple) and ft[0] == "coq":
                        for gd, gu in zip(gdef, gnames):
                            ft2 = ("coq", ft[1].replace("src_St " + gd, "src_St " + gu))
                    e2[nm] = self.typed(g, ft2).with_(var=nm)
            if p[0] == "bind":
                e2[p[1]] = s
            comp = self.block_as(blk, e2, (), ctx, k, env)
            out.append(("src_%s_%s%s" % (ename, vn, " _" * len(gdef)), binders, comp))
        return ("menum", s.code, out)

    def int_match(self, s, arms, env, ctx, k):
        if not arms:
            return ("panic",)
        pats, blk = arms[0]
        conds, facts = [], []
        for p in pats:
            if p[0] == "bind":
                # an identifier in pattern position: a constant of the source is a CONSTANT PATTERN; a lower-case
                # name that is no constant is a binding; anything else cannot be given a meaning here
                c = self.const(p[1], ctx)
                if c is not None:
                    p = ("lit", c.const)
                elif not (p[1][0].islower() or p[1][0] == "_") or len(pats) > 1:
                    raise Untranslatable("pattern %s is neither a known constant nor a binding" % p[1])
            elif p[0] == "ctor" and not p[2]:
                c = self.const_path(p[1], ctx)
                if c is None:
                    raise Untranslatable("pattern %s on an integer" % "::".join(p[1]))
                p = ("lit", c.const)
            if p[0] in ("wild", "bind"):
                e2 = dict(env)
                if p[0] == "bind":
                    e2[p[1]] = s
                return self.block_as(blk, e2, (), ctx, k, env)
            if p[0] == "lit":
                conds.append("(%s =? %d)" % (s.code, p[1]))
            elif p[0] == "range":
                conds.append("((%d <=? %s) && (%s <=? %d))" % (p[1], s.code, s.code, p[2]))
            else:
                raise Untranslatable("pattern %s on an integer" % (p,))
        c = conds[0] if len(conds) == 1 else "(" + " || ".join(conds) + ")"
        a = self.block_as(blk, env, (), ctx, k, env)
        b = self.int_match(s, arms[1:], env, ctx, k)
        return ("if", c, a, b)

    # ------------------------------------------------------------ expressions
    def coerce(self, v, ty):
        """give an untyped literal the expected type; identity otherwise"""
        ty = erase(ty) if ty is not None else None
        if v.ty == "int?" and ty in INT_BITS:
            if v.hi > tmax(ty):
                raise Untranslatable("literal out of range for " + ty)
            return v.with_(ty=ty)
        return v

    def value_block(self, blk, env, facts, ctx, exp):
        col = {"vals": [], "exp": exp}
        comp = self.stmts(blk[0], blk[1], self.enter(env, facts), ctx, ("value", col))
        return comp, col["vals"]

    def join(self, vals, exp):
        if vals and all(isinstance(erase(v.ty), tuple) or v.ty == "bool" for v in vals):
            tys = set(erase(v.ty) for v in vals)
            if len(tys) > 1:
                raise Untranslatable("branches of different types %s" % (tys,))
            ty = tys.pop()
            if ty == ("bytes",):
                return ty, min(v.lo for v in vals), max(v.hi for v in vals)
            return ty, None, None
        tys = set(erase(v.ty) if v.ty != "int?" else "int?" for v in vals)
        tys.discard("int?")
        if len(tys) > 1:
            raise Untranslatable("branches of different types %s" % (tys,))
        ty = tys.pop() if tys else (exp if exp in INT_BITS else "int?")
        if all(v.lo is not None for v in vals):
            return ty, min(v.lo for v in vals), max(v.hi for v in vals)
        return ty, None, None

    def expr(self, e, env, ctx, exp=None):
        k = e[0]
        if k == "num":
            ty = e[2] or (exp if exp in INT_BITS else "int?")
            if ty in INT_BITS and e[1] > tmax(ty):
                raise Untranslatable("literal out of range")
            return [], num(e[1], ty)
        if k == "bool":
            return [], V("true" if e[1] else "false", "bool")
        if k == "paren":
            return self.expr(e[1], env, ctx, exp)
        if k == "unit":
            return [], V("tt", ("unit",))
        if k == "path":
            return [], self.path(e[1], env, ctx, exp)
        if k == "field":
            base = e[1]
            if base[0] == "path" and len(base[1]) == 1:
                key = base[1][0] + "." + e[2]
                if key in env:
                    return [], env[key]
            pre, b = self.expr(base, env, ctx)
            if e[2] == "0" and isinstance(b.ty, tuple) and b.ty[0] == "nt":
                return pre, b.with_(ty=b.ty[2])
            if isinstance(b.ty, tuple) and b.ty[0] == "tuple" and e[2].isdigit() and int(e[2]) < len(b.ty[1]):
                i, n = int(e[2]), len(b.ty[1])
                if n == 2:
                    code = "(%s %s)" % ("fst" if i == 0 else "snd", b.code)
                else:
                    code = "(let '(%s) := %s in x%d)" % (", ".join("x%d" % j for j in range(n)), b.code, i)
                return pre, self.typed(code, b.ty[1][i])
            if e[2] == "0" and isinstance(b.ty, tuple) and b.ty[0] in ("coq", "enum", "opt", "bytes"):
                return pre, b          # a one-field wrapper struct is its field
            raise Untranslatable("field .%s" % e[2])
        if k == "un":
            pre, a = self.expr(e[2], env, ctx, exp)
            if a.ty == "bool":
                if a.code in ("true", "false"):
                    return pre, V("false" if a.code == "true" else "true", "bool")
                return pre, V("(negb %s)" % a.code, "bool", tf=a.ff, ff=a.tf)
            if a.ty in INT_BITS:
                m = tmax(a.ty)
                if a.const is not None:
                    return pre, num(m - a.const, a.ty)
                return pre, V("(%d - %s)" % (m, a.code), a.ty, m - a.hi, m - a.lo)
            raise Untranslatable("! on %s" % (a.ty,))
        if k == "cast":
            ty = parse_type(e[2], ctx.tr.all_idx(ctx.ix))
            pre, a = self.expr(e[1], env, ctx, None)
            return pre, self.cast(a, ty)
        if k == "bin":
            return self.binop(e[1], e[2], e[3], env, ctx, exp)
        if k == "index":
            return self.index(e[1], e[2], env, ctx)
        if k == "call":
            return self.call(e[1], e[2], env, ctx, exp)
        if k == "method":
            return self.method(e[1], e[2], e[3], env, ctx, exp)
        if k == "if":
            pre, c = self.expr(e[1], env, ctx, "bool")
            if e[3] is None:
                raise Untranslatable("if without else used as a value")
            a, va = self.value_block(e[2], env, c.tf, ctx, exp)
            b, vb = self.value_block(e[3], env, c.ff, ctx, exp)
            ty, lo, hi = self.join(va + vb, exp)
            if c.code == "true":
                comp, (ty, lo, hi) = a, self.join(va, exp)
            elif c.code == "false":
                comp, (ty, lo, hi) = b, self.join(vb, exp)
            else:
                comp = ("if", c.code, a, b)
            return self.comp_value(pre, comp, ty, lo, hi, ctx)
        if k == "block":
            a, va = self.value_block((e[1], e[2]), env, (), ctx, exp)
            ty, lo, hi = self.join(va, exp)
            return self.comp_value([], a, ty, lo, hi, ctx)
        if k in ("iflet", "match"):
            col = {"vals": [], "exp": exp}
            comp = self.tail(e, env, ctx, ("value", col))
            ty, lo, hi = self.join(col["vals"], exp)
            return self.comp_value([], comp, ty, lo, hi, ctx)
        if k == "macro" and e[1] == "vec":
            return self.expr(P([("op", "[")] + e[2] + [("op", "]"), ("eof", None)]).expr(), env, ctx, exp)
        if k == "macro":
            raise Untranslatable("macro %s! used as a value" % e[1])
        if k == "slice":
            pre, b = self.expr(e[1], env, ctx)
            if b.ty != ("bytes",):
                raise Untranslatable("range index on %s" % (b.ty,))
            lo = hi = None
            if e[2] is not None:
                p2, lo = self.expr(e[2], env, ctx, "usize")
                lo = self.coerce(lo, "usize")
                pre += p2
            if e[3] is not None:
                p3, hi = self.expr(e[3], env, ctx, "usize")
                hi = self.coerce(hi, "usize")
                pre += p3
            return self.slice_range(pre, b, lo, hi, ctx)
        if k == "arrayrep":
            pre, x = self.expr(e[1], env, ctx, "u8")
            p2, n = self.expr(e[2], env, ctx, "usize")
            x = self.coerce(x, "u8")
            if erase(x.ty) != "u8" or n.const is None or pre or p2:
                raise Untranslatable("array [x; n] other than bytes with a constant length")
            return [], V("(repeatN %s %d)" % (x.code, n.const), ("bytes",), n.const, n.const)
        if k == "array":
            pre, items = [], []
            el = exp.elem if isinstance(exp, ListTy) else None
            for it in e[1]:
                p2, x = self.expr(it, env, ctx, el or None)
                if x.ty == "int?":
                    x = self.coerce(x, el or "u8")
                if el is None:
                    el = erase(x.ty)
                if erase(x.ty) != el or el not in INT_BITS:
                    raise Untranslatable("array elements of type %s" % (x.ty,))
                pre += p2
                items.append(x.code)
            return pre, V("[%s]" % "; ".join(items), ListTy(el or "u8"), len(items), len(items))
        if k == "tuple":
            pre, vs = [], []
            for it in e[1]:
                p2, x = self.expr(it, env, ctx)
                pre += p2
                vs.append(x)
            return pre, V("(%s)" % ", ".join(v.code for v in vs), ("tuple", tuple(erase(v.ty) for v in vs)), opt=("tuple", vs))
        if k == "structlit":
            nm = e[1][-1]
            if nm == "Self":
                nm = ctx.owner
            for x in self.all_idx(ctx.ix):
                if nm in x.records and len(x.records[nm]) == 1 and len(e[2]) == 1 and e[2][0][0] in x.records[nm]:
                    fty = parse_type(x.records[nm][e[2][0][0]], self.all_idx(x))
                    if fty in INT_BITS:
                        pre, v = self.expr(e[2][0][1], env, ctx, fty)
                        v = self.coerce(v, fty)
                        if erase(v.ty) != fty:
                            raise Untranslatable("field of type %s" % (v.ty,))
                        return pre, v
            raise Untranslatable("struct literal of %s" % nm)
        if k == "str":
            raise Untranslatable("string literal")
        raise Untranslatable("expression " + k)

    def blen(self, b):
        """length of a byte list value as a usize value"""
        if b.lo is not None and b.lo == b.hi:
            return num(b.lo, "usize")
        return V("(len %s)" % b.code, "usize", b.lo if b.lo is not None else 0, b.hi if b.hi is not None else tmax("usize"),
                 var=("%len:" + b.var) if b.var else None)

    def slice_range(self, pre, b, lo, hi, ctx):
        n = self.blen(b)
        if hi is None:
            hi = n
        else:
            if hi.hi > n.lo:
                p2, hi = self.chk("(%s <=? %s)" % (hi.code, n.code), hi.code, "usize", hi.lo, min(hi.hi, n.hi), ctx)
                pre = pre + p2
        code = b.code if hi is n else "(firstn (N.to_nat %s) %s)" % (hi.code, b.code)
        if lo is None or lo.const == 0:
            return pre, V(code, b.ty, hi.lo, hi.hi)
        if lo.hi > hi.lo:
            p2, lo = self.chk("(%s <=? %s)" % (lo.code, hi.code), lo.code, "usize", lo.lo, min(lo.hi, hi.hi), ctx)
            pre = pre + p2
        return pre, V("(skipn (N.to_nat %s) %s)" % (lo.code, code), b.ty, max(0, hi.lo - lo.hi), hi.hi - lo.lo)

    def typed(self, code, ty):
        e = erase(ty)
        if e in INT_BITS:
            return V(code, ty, 0, tmax(e))
        if e == ("bytes",):
            return V(code, e, 0, tmax("usize"))
        return V(code, e)

    def comp_value(self, pre, comp, ty, lo, hi, ctx):
        if comp[0] == "ret":
            return pre, V(comp[1], ty, lo, hi)
        if is_pure(comp):
            return pre, V("(%s)" % pr(comp, False, 6), ty, lo, hi)
        t = ctx.fresh("t")
        return pre + [("bind", t, comp)], V(t, ty, lo, hi)

    def path(self, p, env, ctx, exp):
        if len(p) == 1:
            n = p[0]
            if n in env and isinstance(env[n], V):
                v = env[n]
                if v.ty == ("opaque",):
                    raise Untranslatable("use of parameter %s, whose type is outside the subset" % n)
                return v
            if n == "self" and "self.0" in env:
                st = self.self_type(ctx.ix, ctx.owner)
                return env["self.0"].with_(ty=st)
            if n == "None":
                return V("None", ("opt", exp[1] if isinstance(exp, tuple) and exp[0] == "opt" else "u8"), opt=("none",))
            c = self.const(n, ctx)
            if c is not None:
                return c
            raise Untranslatable("unknown name " + n)
        if len(p) >= 2 and p[-2] == "Ordering" and p[-1] in ("Less", "Equal", "Greater"):
            return V({"Less": "Lt", "Equal": "Eq", "Greater": "Gt"}[p[-1]], ("ord",))
        if p[-1] in ("MAX", "MIN") and p[-2] in INT_BITS:
            return num(tmax(p[-2]) if p[-1] == "MAX" else 0, p[-2])
        if len(p) >= 2:
            v = self.enum_ctor(p[-2], p[-1], [], env, ctx)
            if v is not None:
                return v[1]
        if len(p) == 2 and p[1] in TAGS and p[0] == "State":
            return V(str(TAGS[p[1]]), "tag", TAGS[p[1]], TAGS[p[1]])
        if p[0] in ("crate", "self", "super", "raw"):
            return self.path(p[1:], env, ctx, exp)
        c = self.const_path(p, ctx)
        if c is not None:
            return c
        raise Untranslatable("unknown path " + "::".join(p))

    def enum_ctor(self, ename, vname, args, env, ctx):
        """Enum::Variant(args) of an enum with data -> (pre, V) or None"""
        if ename == "State" and vname in TAGS:
            return None
        for x in self.all_idx(ctx.ix):
            if ename in x.enums:
                gdef, variants = self.enum_info(ename, x, None)
                for vn, ftys in variants:
                    if vn == vname:
                        if len(ftys) != len(args):
                            raise Untranslatable("arity of %s::%s" % (ename, vname))
                        pre, codes = [], []
                        for a, ft in zip(args, ftys):
                            p2, v = self.expr(a, env, ctx, erase(ft) if not isinstance(erase(ft), tuple) else None)
                            pre += p2
                            codes.append(self.coerce(v, ft).code)
                        self.used_enums.setdefault(ename, (x, gdef))
                        gnames = tuple(g for g in gdef)
                        code = " ".join(["src_%s_%s" % (ename, vname)] + list(gnames) + codes)
                        return pre, V("(%s)" % code if (gnames or codes) else code, ("enum", ename, gnames))
                raise Untranslatable("variant %s::%s" % (ename, vname))
        return None

    def const_path(self, p, ctx):
        """a path in constant position: NAME, module::NAME (lower-case module), uN::MAX; Type::NAME is an associated
        constant, which is not indexed -> None"""
        if len(p) >= 2 and p[-1] in ("MAX", "MIN") and p[-2] in INT_BITS:
            return num(tmax(p[-2]) if p[-1] == "MAX" else 0, p[-2])
        if len(p) == 1:
            return self.const(p[0], ctx)
        if all(x[0].islower() for x in p[:-1]) and not any(x in INT_BITS for x in p[:-1]):
            return self.const(p[-1], ctx)
        return None

    def const(self, n, ctx):
        own = [ctx.ix] + [ix for f, ix in self.files.items() if f == "src/raw/mod.rs" and ix is not ctx.ix]
        for ix in own:
            if n in ix.consts:
                tyt, et = ix.consts[n]
                try:
                    ty = parse_type(tyt, self.all_idx(ix))
                except Untranslatable:
                    return None
                if erase(ty) not in INT_BITS:
                    return None
                c2 = Ctx(self, ix, None, erase(ty), ("fn",), False)
                pre, v = self.expr(P(et + [("eof", None)]).expr(), {"%decl": frozenset()}, c2, erase(ty))
                v = self.coerce(v, erase(ty))
                if pre or v.const is None:
                    raise Untranslatable("const %s is not a literal expression" % n)
                return num(v.const, erase(ty))
        return None

    def cast(self, a, ty):
        ty = erase(ty)
        if ty not in INT_BITS:
            raise Untranslatable("cast to %s" % (ty,))
        if a.ty == "bool":
            return V("(if %s then 1 else 0)" % a.code, ty, 0, 1)
        if a.ty == "int?":
            if a.hi > tmax(ty):
                return num(a.const & tmax(ty), ty)
            return a.with_(ty=ty)
        if isinstance(a.ty, tuple) and a.ty[0] == "nt":
            raise Untranslatable("cast of a struct")
        if a.ty not in INT_BITS:
            raise Untranslatable("cast from %s" % (a.ty,))
        m = tmax(ty)
        if a.hi <= m:
            return a.with_(ty=ty, var=None, tf=(), ff=())
        if a.const is not None:
            return num(a.const & m, ty)
        return V("(%s mod %d)" % (a.code, m + 1), ty, 0, m)

    def chk(self, cond, val, ty, lo, hi, ctx):
        t = ctx.fresh("t")
        return [("bind", t, ("if", cond, ("ret", val), ("panic",)))], V(t, ty, lo, hi)

    def unify(self, a, b):
        if a.ty == "int?" and b.ty in INT_BITS:
            a = self.coerce(a, b.ty)
        if b.ty == "int?" and a.ty in INT_BITS:
            b = self.coerce(b, a.ty)
        return a, b

    def binop(self, op, le, re_, env, ctx, exp):
        if op in ("&&", "||"):
            pa, a = self.expr(le, env, ctx, "bool")
            env2 = self.refine(env, a.tf if op == "&&" else a.ff)
            pb, b = self.expr(re_, env2, ctx, "bool")
            if a.ty != "bool" or b.ty != "bool":
                raise Untranslatable(op + " on non-booleans")
            if pb:
                # the right operand may panic: it is only evaluated when the left one does not decide
                comp = wrap(pb, ("ret", b.code))
                t = ctx.fresh("t")
                if op == "&&":
                    return pa + [("bind", t, ("if", a.code, comp, ("ret", "false")))], V(t, "bool")
                return pa + [("bind", t, ("if", a.code, ("ret", "true"), comp))], V(t, "bool")
            if op == "&&":
                if a.code == "true":
                    return pa, b
                if a.code == "false":
                    return pa, a
                return pa, V("(%s && %s)" % (a.code, b.code), "bool", tf=a.tf + b.tf)
            if a.code == "false":
                return pa, b
            if a.code == "true":
                return pa, a
            return pa, V("(%s || %s)" % (a.code, b.code), "bool", ff=a.ff + b.ff)
        if op in ("==", "!=", "<", ">", "<=", ">="):
            pa, a = self.expr(le, env, ctx, None)
            pb, b = self.expr(re_, env, ctx, erase(a.ty) if a.ty in INT_BITS else None)
            a, b = self.unify(a, b)
            return pa + pb, self.compare(op, a, b)
        if op in ("<<", ">>"):
            pa, a = self.expr(le, env, ctx, exp)
            pb, b = self.expr(re_, env, ctx, None)
            if a.ty == "int?":
                if exp in INT_BITS:
                    a = self.coerce(a, exp)
                elif b.const is not None and op == "<<" and a.const is not None:
                    return pa + pb, V(str(a.const << b.const), "int?", a.const << b.const, a.const << b.const)
                elif a.const is not None and b.const is not None:
                    return pa + pb, V(str(a.const >> b.const), "int?", a.const >> b.const, a.const >> b.const)
            pc, r = self.shift(op, a, b, ctx)
            return pa + pb + pc, r
        pa, a = self.expr(le, env, ctx, exp)
        pb, b = self.expr(re_, env, ctx, erase(a.ty) if a.ty in INT_BITS else exp)
        a, b = self.unify(a, b)
        pc, r = self.arith(op, a, b, ctx)
        return pa + pb + pc, r

    def compare(self, op, a, b):
        if a.ty == "bool" and b.ty == "bool" and op in ("==", "!="):
            c = "(Bool.eqb %s %s)" % (a.code, b.code)
            return V(c if op == "==" else "(negb %s)" % c, "bool")
        ta, tb = erase(a.ty), erase(b.ty)
        if ta == ("bytes",) and tb == ("bytes",):
            c = {"<": "(key_ltb %s %s)" % (a.code, b.code), "<=": "(key_leb %s %s)" % (a.code, b.code),
                 ">": "(key_ltb %s %s)" % (b.code, a.code), ">=": "(key_leb %s %s)" % (b.code, a.code),
                 "==": "(key_eqb %s %s)" % (a.code, b.code), "!=": "(negb (key_eqb %s %s))" % (a.code, b.code)}[op]
            return V(c, "bool")
        if isinstance(ta, tuple) and ta[0] == "opt" and isinstance(tb, tuple) and tb[0] == "opt" and op in ("==", "!="):
            ia, ib = ta[1], tb[1]
            if not ((ia in INT_BITS or ia == "int?") and (ib in INT_BITS or ib == "int?")):
                raise Untranslatable("comparison of options of %s" % (ia,))
            c = "(src_opt_eqb %s %s)" % (a.code, b.code)
            return V(c if op == "==" else "(negb %s)" % c, "bool")
        if not (is_int(ta) and is_int(tb)) or (ta != tb and "int?" not in (ta, tb)):
            raise Untranslatable("comparison of %s and %s" % (a.ty, b.ty))
        if a.const is not None and b.const is not None:
            r = {"==": a.const == b.const, "!=": a.const != b.const, "<": a.const < b.const, ">": a.const > b.const,
                 "<=": a.const <= b.const, ">=": a.const >= b.const}[op]
            return V("true" if r else "false", "bool")
        code = {"==": "(%s =? %s)", "!=": "(negb (%s =? %s))", "<": "(%s <? %s)", "<=": "(%s <=? %s)"}
        if op == ">":
            c = "(%s <? %s)" % (b.code, a.code)
        elif op == ">=":
            c = "(%s <=? %s)" % (b.code, a.code)
        else:
            c = code[op] % (a.code, b.code)
        big = 1 << 70
        tf, ff = [], []

        def fact(x, o, y):          # x o y is known to hold
            out = []
            if x.var:
                if o == "<":
                    out.append((x.var, 0, y.hi - 1))
                elif o == "<=":
                    out.append((x.var, 0, y.hi))
                elif o == ">":
                    out.append((x.var, y.lo + 1, big))
                elif o == ">=":
                    out.append((x.var, y.lo, big))
                elif o == "==":
                    out.append((x.var, y.lo, y.hi))
                elif o == "!=" and y.const is not None:
                    if x.lo == y.const:
                        out.append((x.var, x.lo + 1, big))
                    elif x.hi == y.const:
                        out.append((x.var, 0, x.hi - 1))
            return out
        neg = {"==": "!=", "!=": "==", "<": ">=", ">=": "<", ">": "<=", "<=": ">"}
        flip = {"==": "==", "!=": "!=", "<": ">", ">": "<", "<=": ">=", ">=": "<="}
        tf = fact(a, op, b) + fact(b, flip[op], a)
        ff = fact(a, neg[op], b) + fact(b, flip[neg[op]], a)
        # decided by the intervals alone
        if op == "<" and a.hi < b.lo or op == "<=" and a.hi <= b.lo or op == ">" and a.lo > b.hi or op == ">=" and a.lo >= b.hi:
            pass
        return V(c, "bool", tf=tf, ff=ff)

    def shift(self, op, a, b, ctx):
        if a.ty not in INT_BITS or not is_int(b.ty):
            raise Untranslatable("shift of %s by %s" % (a.ty, b.ty))
        bits = INT_BITS[a.ty]
        m = tmax(a.ty)
        pre = []
        if b.hi >= bits:
            if self.ovf:
                pre, b = self.chk("(%s <? %d)" % (b.code, bits), b.code, b.ty, b.lo, bits - 1, ctx)
            else:
                b = V("(%s mod %d)" % (b.code, bits), b.ty, 0, bits - 1)
        if a.const is not None and b.const is not None:
            r = (a.const << b.const) & m if op == "<<" else a.const >> b.const
            return pre, num(r, a.ty)
        if op == ">>":
            return pre, V("(N.shiftr %s %s)" % (a.code, b.code), a.ty, a.lo >> b.hi, a.hi >> b.lo)
        hi = a.hi << b.hi
        if hi <= m:
            return pre, V("(N.shiftl %s %s)" % (a.code, b.code), a.ty, a.lo << b.lo, hi)
        return pre, V("((N.shiftl %s %s) mod %d)" % (a.code, b.code, m + 1), a.ty, 0, m)

    def arith(self, op, a, b, ctx, wrapping=False):
        ta, tb = erase(a.ty), erase(b.ty)
        if ta == "int?" and tb == "int?":
            f = {"+": lambda x, y: x + y, "-": lambda x, y: x - y, "*": lambda x, y: x * y, "/": lambda x, y: x // y,
                 "%": lambda x, y: x % y, "&": lambda x, y: x & y, "|": lambda x, y: x | y, "^": lambda x, y: x ^ y}[op]
            r = f(a.const, b.const)
            if r < 0:
                raise Untranslatable("negative constant")
            return [], V(str(r), "int?", r, r)
        if ta not in INT_BITS or ta != tb:
            raise Untranslatable("operator %s on %s and %s" % (op, a.ty, b.ty))
        ty, m = ta, tmax(ta)
        ac, bc = a.const, b.const
        checked = self.ovf and not wrapping
        if op == "+":
            lo, hi = a.lo + b.lo, a.hi + b.hi
            if ac is not None and bc is not None and hi <= m:
                return [], num(ac + bc, ty)
            code = "(%s + %s)" % (a.code, b.code) if bc != 0 else a.code
            if ac == 0:
                code = b.code
            if hi <= m:
                return [], V(code, ty, lo, hi)
            if checked:
                return self.chk("(%s <=? %d)" % (code, m), code, ty, lo, m, ctx)
            return [], V("(%s mod %d)" % (code, m + 1), ty, 0, m)
        if op == "-":
            if ac is not None and bc is not None and ac >= bc:
                return [], num(ac - bc, ty)
            code = "(%s - %s)" % (a.code, b.code) if bc != 0 else a.code
            lo, hi = max(0, a.lo - b.hi), max(0, a.hi - b.lo)
            if a.lo >= b.hi:
                return [], V(code, ty, lo, hi)
            if checked:
                return self.chk("(%s <=? %s)" % (b.code, a.code), code, ty, lo, hi, ctx)
            return [], V("((%s + %d - %s) mod %d)" % (a.code, m + 1, b.code, m + 1), ty, 0, m)
        if op == "*":
            lo, hi = a.lo * b.lo, a.hi * b.hi
            if ac is not None and bc is not None and hi <= m:
                return [], num(ac * bc, ty)
            code = "(%s * %s)" % (a.code, b.code)
            if hi <= m:
                return [], V(code, ty, lo, hi)
            if checked:
                return self.chk("(%s <=? %d)" % (code, m), code, ty, lo, m, ctx)
            return [], V("(%s mod %d)" % (code, m + 1), ty, 0, m)
        if op in ("/", "%"):
            pre = []
            if b.lo == 0:
                pre, b = self.chk("(negb (%s =? 0))" % b.code, b.code, ty, 1, b.hi, ctx)
            if ac is not None and b.const is not None:
                return pre, num(ac // b.const if op == "/" else ac % b.const, ty)
            if op == "/":
                return pre, V("(%s / %s)" % (a.code, b.code), ty, a.lo // b.hi, a.hi // b.lo)
            if a.hi < b.lo:
                return pre, a.with_(var=None, tf=(), ff=())
            return pre, V("(%s mod %s)" % (a.code, b.code), ty, 0, min(a.hi, b.hi - 1))
        if op == "&":
            if ac is not None and bc is not None:
                return [], num(ac & bc, ty)
            return [], V("(N.land %s %s)" % (a.code, b.code), ty, 0, min(a.hi, b.hi))
        if op in ("|", "^"):
            if ac is not None and bc is not None:
                return [], num(ac | bc if op == "|" else ac ^ bc, ty)
            hi = (1 << max(a.hi.bit_length(), b.hi.bit_length())) - 1
            lo = max(a.lo, b.lo) if op == "|" else 0
            return [], V("(N.l%s %s %s)" % ("or" if op == "|" else "xor", a.code, b.code), ty, lo, hi)
        raise Untranslatable("operator " + op)

    def index(self, base, ix, env, ctx):
        if base[0] == "index" and base[1][0] == "path" and base[1][1][-1] in self.ext_tables:
            tn = base[1][1][-1]
            dims, ety = self.ext_tables[tn]
            if len(dims) == 2:
                p1, j = self.expr(base[2], env, ctx, "usize")
                p2, i = self.expr(ix, env, ctx, "usize")
                j, i = self.coerce(j, "usize"), self.coerce(i, "usize")
                pre = p1 + p2
                if j.hi >= dims[0]:
                    p3, j = self.chk("(%s <? %d)" % (j.code, dims[0]), j.code, "usize", j.lo, dims[0] - 1, ctx)
                    pre += p3
                if i.hi >= dims[1]:
                    p3, i = self.chk("(%s <? %d)" % (i.code, dims[1]), i.code, "usize", i.lo, dims[1] - 1, ctx)
                    pre += p3
                ctx.ext_used.add(tn)
                return pre, V("(List.nth (N.to_nat %s) (List.nth (N.to_nat %s) %s []) 0)" % (i.code, j.code, tn), ety, 0, tmax(ety))
        if base[0] == "path" and base[1][-1] in self.ext_tables and len(self.ext_tables[base[1][-1]][0]) == 1:
            tn = base[1][-1]
            dims, ety = self.ext_tables[tn]
            pre, i = self.expr(ix, env, ctx, "usize")
            i = self.coerce(i, "usize")
            if i.hi >= dims[0]:
                p3, i = self.chk("(%s <? %d)" % (i.code, dims[0]), i.code, "usize", i.lo, dims[0] - 1, ctx)
                pre += p3
            ctx.ext_used.add(tn)
            return pre, V("(List.nth (N.to_nat %s) %s 0)" % (i.code, tn), ety, 0, tmax(ety))
        if base[0] == "path" and len(base[1]) == 1 and base[1][0] in env:
            pass
        elif base[0] == "path" and base[1][-1] in self.tables:
            name, length = self.tables[base[1][-1]]
            pre, i = self.expr(ix, env, ctx, "usize")
            i = self.coerce(i, "usize")
            if i.hi >= length:
                p2, i = self.chk("(%s <? %d)" % (i.code, length), i.code, i.ty, i.lo, length - 1, ctx)
                pre = pre + p2
            return pre, V("(List.nth (N.to_nat %s) %s 0)" % (i.code, name), "u8", 0, 255)
        pre, b = self.expr(base, env, ctx)
        if b.ty == ("bytes",):
            p2, i = self.expr(ix, env, ctx, "usize")
            i = self.coerce(i, "usize")
            pre = pre + p2
            n = self.blen(b)
            if i.hi >= n.lo:
                p3, i = self.chk("(%s <? %s)" % (i.code, n.code), i.code, "usize", i.lo, min(i.hi, max(0, n.hi - 1)), ctx)
                pre = pre + p3
            el = elem_of(b.ty)
            return pre, V("(List.nth (N.to_nat %s) %s 0)" % (i.code, b.code), el, 0, tmax(el))
        raise Untranslatable("indexing (a read of the data is outside the subset)")

    def call_fn(self, f, argvals, argexprs, env, ctx):
        """call of a translated function; argvals[i] given or None -> translate argexprs[i - offset]"""
        pre, codes = [], []
        ext = list(getattr(f, "ext", []))
        for t in ext:
            ctx.ext_used.add(t)
        if ext:
            argvals = [V(t, ("ext", t)) for t in ext] + list(argvals)
        off = len(argvals) - len(argexprs)
        if len(argvals) != len(f.params_rust):
            raise Untranslatable("arity of %s" % f.coqname)
        for i, (pty, ncoq) in enumerate(f.params_rust):
            if argvals[i] is not None:
                vals = [argvals[i]]
            else:
                e = argexprs[i - off]
                et = erase(pty)
                if pty == ("slice",):
                    p, v = self.expr(e, env, ctx)
                    if v.ty != ("slice",):
                        raise Untranslatable("slice argument")
                    pre += p
                    vals = [v]
                elif pty == ("node",):
                    if not (e[0] == "path" and len(e[1]) == 1 and (e[1][0] + ".start") in env):
                        raise Untranslatable("node argument")
                    vals = [env[e[1][0] + "." + fl] for fl, _ in NODE_FIELDS]
                else:
                    p, v = self.expr(e, env, ctx, et if not isinstance(et, tuple) else None)
                    v = self.coerce(v, et)
                    if erase(v.ty) != et and not (isinstance(et, tuple) and et[0] == "opt" and isinstance(v.ty, tuple)):
                        raise Untranslatable("argument of type %s where %s is expected" % (v.ty, pty))
                    pre += p
                    vals = [v]
            codes += [v.code for v in vals]
        code = "(%s %s)" % (f.coqname, " ".join(codes)) if codes else f.coqname
        rty = f.rty
        lo, hi = (f.lo, f.hi) if f.lo is not None else ((0, tmax(rty)) if rty in INT_BITS else (None, None))
        if f.pure:
            return pre, V(code, rty, lo, hi)
        t = ctx.fresh("t")
        return pre + [("bind", t, ("raw", code))], V(t, rty, lo, hi)

    def call(self, path, args, env, ctx, exp):
        name = path[-1]
        if len(path) >= 2 and path[-2] == "cmp" and name in ("min", "max") and len(args) == 2:
            return self.minmax(name, args[0], args[1], env, ctx, exp)
        if len(path) == 1:
            if name == "Some" and len(args) == 1:
                et = exp[1] if isinstance(exp, tuple) and exp[0] == "opt" else None
                pre, v = self.expr(args[0], env, ctx, et)
                if v.ty == "int?":
                    v = self.coerce(v, et or "u8")
                return pre, V("(Some %s)" % v.code, ("opt", erase(v.ty)), opt=("some", v))
            for ix in self.all_idx(ctx.ix):
                if name in ix.tuples and name not in ix.newtypes and len(args) == len(ix.tuples[name][1]):
                    pre, vs = [], []
                    for a in args:
                        p2, v = self.expr(a, env, ctx)
                        pre += p2
                        vs.append(v)
                    if len(vs) == 1:
                        return pre, vs[0]
                    return pre, V("(%s)" % ", ".join(v.code for v in vs), ("tuple", tuple(erase(v.ty) for v in vs)))
            for ix in self.all_idx(ctx.ix):
                if name in ix.newtypes and len(args) == 1:
                    inner = ix.newtypes[name]
                    pre, v = self.expr(args[0], env, ctx, inner)
                    v = self.coerce(v, inner)
                    if erase(v.ty) != inner:
                        raise Untranslatable("%s(..) of a %s" % (name, v.ty))
                    return pre, v.with_(ty=("nt", name, inner))
            if name == "u64_to_usize" and len(args) == 1:
                pre, v = self.expr(args[0], env, ctx, "u64")
                return pre, self.cast(self.coerce(v, "u64"), "usize")     # 64-bit target: the identity
            f = self.fn_info(ctx.ix, None, name)
            return self.call_fn(f, [None] * len(args), args, env, ctx)
        if len(path) == 2 and path[0] in INT_BITS and name == "from_le_bytes" and len(args) == 1:
            pre, b = self.expr(args[0], env, ctx)
            n = INT_BITS[path[0]] // 8
            if b.ty != ("bytes",) or b.lo != n or b.hi != n:
                raise Untranslatable("from_le_bytes of something that is not exactly %d bytes" % n)
            return pre, V("(le_lor %s)" % b.code, path[0], 0, tmax(path[0]))
        if len(path) == 2 and path[0] in INT_BITS and name == "from" and len(args) == 1:
            pre, v = self.expr(args[0], env, ctx)
            return pre, self.cast(v, path[0])
        if len(path) == 2 and path[0] == "State" and name in TAGS:
            return [], V(str(TAGS[name]), "tag", TAGS[name], TAGS[name])
        if len(path) >= 2:
            r = self.enum_ctor(path[-2], name, args, env, ctx)
            if r is not None:
                return r
        owner = path[-2]
        if owner == "Self":
            owner = ctx.owner
        if owner == "bytes":
            bix = self.files.get("src/bytes.rs")
            if bix is None:
                raise Untranslatable("bytes::" + name)
            f = self.fn_info(bix, None, name)
            return self.call_fn(f, [None] * len(args), args, env, ctx)
        f = self.fn_info(ctx.ix, owner, name)
        return self.call_fn(f, [None] * len(args), args, env, ctx)

    def fn_info(self, ix, owner, name):
        f = self.get_fn(ix, owner, name)
        if not hasattr(f, "params_rust"):
            f.params_rust = []
            for g, ct, rt in f.params:
                f.params_rust.append((rt, g))
            # a node parameter occupies len(NODE_FIELDS) gallina parameters but one rust argument
            out, i = [], 0
            while i < len(f.params_rust):
                rt, g = f.params_rust[i]
                out.append((rt, g))
                i += 1
            f.params_rust = collapse_node(out)
        return f

    def minmax(self, name, ae, be, env, ctx, exp):
        pa, a = self.expr(ae, env, ctx, exp)
        pb, b = self.expr(be, env, ctx, erase(a.ty) if a.ty in INT_BITS else exp)
        a, b = self.unify(a, b)
        if a.const is not None and b.const is not None:
            return pa + pb, num(min(a.const, b.const) if name == "min" else max(a.const, b.const), a.ty)
        f = min if name == "min" else max
        return pa + pb, V("(N.%s %s %s)" % (name, a.code, b.code), a.ty, f(a.lo, b.lo), f(a.hi, b.hi))

    def cmp_values(self, a, b):
        """Ord::cmp of two values as a Gallina term of type comparison"""
        ta, tb = erase(a.ty), erase(b.ty)
        if a.opt and a.opt[0] == "tuple" and b.opt and b.opt[0] == "tuple" and len(a.opt[1]) == len(b.opt[1]):
            parts = [self.cmp_values(x, y) for x, y in zip(a.opt[1], b.opt[1])]
            code = parts[-1]
            for pc in reversed(parts[:-1]):
                code = "(match %s with Eq => %s | src_c => src_c end)" % (pc, code)
            return code
        if ta == ("bytes",) and tb == ("bytes",):
            return "(lex_cmp %s %s)" % (a.code, b.code)
        if is_int(ta) and is_int(tb):
            a, b = self.unify(a, b)
            if erase(a.ty) == erase(b.ty):
                return "(N.compare %s %s)" % (a.code, b.code)
        if ta == "bool" and tb == "bool":
            return "(N.compare (if %s then 1 else 0) (if %s then 1 else 0))" % (a.code, b.code)
        raise Untranslatable("cmp of %s and %s" % (a.ty, b.ty))

    def method(self, name, recv, args, env, ctx, exp):
        if recv == ("path", ["self"]) and ctx.owner and "self" not in env and self.find_fn(ctx.ix, ctx.owner, name)[1] is not None:
            f = self.get_fn(ctx.ix, ctx.owner, name)
            rp = [x for x in f.rust_params if x != "self"]
            if len(rp) != len(args):
                raise Untranslatable("arity of %s" % name)
            codes, pre = [], []
            for g, ct, rt in f.params:
                key = f.keys.get(g)
                if key is None:
                    raise Untranslatable("call of %s: parameter %s" % (name, g))
                if key.startswith("self."):
                    if key not in env:
                        raise Untranslatable("call of %s needs %s" % (name, key))
                    codes.append(env[key].code)
                    continue
                base, _, fld = key.partition(".")
                a = args[rp.index(base)]
                if fld:
                    if not (a[0] == "path" and len(a[1]) == 1 and (a[1][0] + "." + fld) in env):
                        raise Untranslatable("record argument of %s" % name)
                    codes.append(env[a[1][0] + "." + fld].code)
                else:
                    p2, v = self.expr(a, env, ctx, erase(rt) if not isinstance(erase(rt), tuple) else None)
                    pre += p2
                    codes.append(self.coerce(v, rt).code)
            code = "(%s %s)" % (f.coqname, " ".join(codes))
            if f.pure:
                v = self.typed(code, f.rty)
                if isinstance(f.rty, tuple) and f.rty[0] == "opt" and getattr(f, "always_some", False):
                    v = v.with_(opt=None)
                return pre, v
            t = ctx.fresh("t")
            return pre + [("bind", t, ("raw", code))], self.typed(t, f.rty)
        if name == "collect" and not args and recv[0] == "paren" and recv[1][0] == "range":
            recv = recv[1]
        if name == "collect" and not args and recv[0] == "range":
            pa, a = self.expr(recv[1], env, ctx, "usize")
            pb, b = self.expr(recv[2], env, ctx, "usize")
            a, b = self.coerce(a, "usize"), self.coerce(b, "usize")
            return pa + pb, V("(src_range %s %s)" % (a.code, b.code), ListTy("usize"), max(0, b.lo - a.hi), max(0, b.hi - a.lo))
        if name in ("cmp", "partial_cmp") and len(args) == 1:
            pa, a = self.expr(recv, env, ctx)
            pb, b = self.expr(args[0], env, ctx, erase(a.ty) if a.ty in INT_BITS else None)
            try:
                code = self.cmp_values(a, b)
            except Untranslatable:
                code = None
            if code is not None:
                v = V(code, ("ord",))
                if name == "cmp":
                    return pa + pb, v
                return pa + pb, V("(Some %s)" % code, ("opt", ("ord",)), opt=("some", v))
        if name in ("reverse", "then", "then_with", "is_lt", "is_le", "is_gt", "is_ge", "is_eq", "is_ne"):
            pa, a = self.expr(recv, env, ctx)
            if a.ty == ("ord",):
                if name == "reverse" and not args:
                    return pa, V("(CompOpp %s)" % a.code, ("ord",))
                if name in ("then", "then_with") and len(args) == 1:
                    e2 = args[0][2] if (name == "then_with" and args[0][0] == "closure" and not args[0][1]) else (args[0] if name == "then" else None)
                    if e2 is None:
                        raise Untranslatable("then_with argument")
                    pb, b = self.expr(e2, env, ctx)
                    if pb or b.ty != ("ord",):
                        raise Untranslatable("then_with body")
                    return pa, V("(match %s with Eq => %s | src_c => src_c end)" % (a.code, b.code), ("ord",))
                tests = {"is_lt": "Lt => true | _ => false", "is_le": "Gt => false | _ => true", "is_gt": "Gt => true | _ => false",
                         "is_ge": "Lt => false | _ => true", "is_eq": "Eq => true | _ => false", "is_ne": "Eq => false | _ => true"}
                if name in tests and not args:
                    return pa, V("(match %s with %s end)" % (a.code, tests[name]), "bool")
        pre, r = self.expr(recv, env, ctx, exp if name.startswith(("wrapping_", "rotate_", "checked_", "saturating_")) or name in ("min", "max") else None)
        rt = r.ty
        if isinstance(rt, tuple) and rt[0] == "aut":
            A = rt[1]
            sig = {"start": (0, ("coq", "src_St %s" % A)), "is_match": (1, "bool"), "can_match": (1, "bool"),
                   "will_always_match": (1, "bool"), "accept": (2, ("coq", "src_St %s" % A))}
            if name not in sig or len(args) != sig[name][0]:
                raise Untranslatable("method .%s of a component automaton" % name)
            codes = []
            for i, a in enumerate(args):
                p2, v = self.expr(a, env, ctx, "u8" if i == 1 else None)
                v = self.coerce(v, "u8") if i == 1 else v
                want = ("coq", "src_St %s" % A) if i == 0 else "u8"
                if erase(v.ty) != want:
                    raise Untranslatable("argument of type %s passed to %s.%s" % (v.ty, A, name))
                pre += p2
                codes.append(v.code)
            code = "(src_%s %s%s)" % (name, A, "".join(" " + c for c in codes))
            return pre, V(code, sig[name][1])
        if rt == ("str",):
            if name == "chars" and not args:
                return pre, V(r.code, ListTy("u32"), r.lo, r.hi, var=r.var)
            if name == "len" and not args:
                return pre, V("(src_utf8_len %s)" % r.code, "usize", 0, tmax("usize"))
            if name in ("to_owned", "clone", "as_str", "to_string") and not args:
                return pre, r
            raise Untranslatable("string method ." + name)
        if rt == ("bytes",):
            if name == "count" and not args:
                return pre, self.blen(r)
            if name == "min" and not args:
                return pre, V("(src_list_min %s)" % r.code, ("opt", elem_of(rt)))
            if name == "len" and not args:
                return pre, self.blen(r)
            if name == "is_empty" and not args:
                return pre, V("(len %s =? 0)" % r.code, "bool")
            if name in ("iter", "to_owned", "to_vec", "clone", "as_ref", "as_slice", "as_bytes", "into_iter", "copied", "cloned", "borrow", "deref") and not args:
                return pre, r
            if name == "try_into" and not args and r.lo is not None and r.lo == r.hi:
                return pre, r.with_(opt=("tryinto",))       # slice -> [u8; n] of exactly that length: cannot fail
            if name == "unwrap" and not args and r.opt == ("tryinto",):
                return pre, r
            if name == "rev" and not args:
                return pre, r.with_(code="(rev %s)" % r.code, var=None)
            if name == "get" and len(args) == 1:
                p2, i = self.expr(args[0], env, ctx, "usize")
                i = self.coerce(i, "usize")
                return pre + p2, V("(nth_error %s (N.to_nat %s))" % (r.code, i.code), ("opt", elem_of(rt)))
            if name in ("first", "last") and not args:
                c = "(nth_error %s 0)" % r.code if name == "first" else "(last_opt %s)" % r.code
                return pre, V(c, ("opt", elem_of(rt)))
            raise Untranslatable("slice method ." + name)
        if isinstance(rt, tuple) and rt[0] == "opt" and name in ("cloned", "copied", "clone") and not args:
            return pre, r
        if rt == ("slice",):
            if name == "len" and not args:
                return pre, V(r.code, "usize", 0, tmax("usize"), var=None)
            if name == "is_empty" and not args:
                return pre, V("(%s =? 0)" % r.code, "bool")
            raise Untranslatable("slice method ." + name)
        if isinstance(rt, tuple) and rt[0] == "nt":
            f = self.fn_info(ctx.ix, rt[1], name)
            p2, v = self.call_fn(f, [r] + [None] * len(args), args, env, ctx)
            return pre + p2, v
        if isinstance(rt, tuple) and rt[0] == "opt":
            if name in ("is_none", "is_some") and not args:
                if r.opt and r.opt[0] in ("some", "none"):
                    return pre, V("true" if (r.opt[0] == "none") == (name == "is_none") else "false", "bool")
                a, b = ("false", "true") if name == "is_none" else ("true", "false")
                return pre, V("(match %s with Some _ => %s | None => %s end)" % (r.code, a, b), "bool")
            if name in ("unwrap", "expect") and all(a[0] == "str" for a in args):
                ety = rt[1]
                if r.opt and r.opt[0] == "cond":
                    p2, v = self.chk(r.opt[1], r.opt[2].code, ety, r.opt[2].lo, r.opt[2].hi, ctx)
                    return pre + p2, v
                if r.opt and r.opt[0] == "some":
                    return pre, r.opt[1]
                t, x = ctx.fresh("t"), ctx.fresh("x")
                return pre + [("bind", t, ("mopt", r.code, x, ("ret", x), ("panic",)))], self.typed(t, ety)
            if name in ("map_or", "map") and args and args[-1][0] == "closure" and len(args[-1][1]) == 1 and len(args) == (2 if name == "map_or" else 1):
                ety = rt[1]
                if name == "map" and r.opt and r.opt[0] == "some":
                    e2 = dict(env)
                    e2[args[-1][1][0]] = r.opt[1]
                    pb, bv = self.expr(args[-1][2], e2, ctx)
                    if not pb:
                        return pre, V("(Some %s)" % bv.code, ("opt", erase(bv.ty)), opt=("some", bv))
                x = ctx.fresh(args[-1][1][0])
                e2 = dict(env)
                e2[args[-1][1][0]] = self.typed(x, ety).with_(var=args[-1][1][0])
                pb, bv = self.expr(args[-1][2], e2, ctx, exp if name == "map_or" else None)
                if pb:
                    raise Untranslatable("closure body may panic")
                if name == "map":
                    return pre, V("(match %s with Some %s => Some %s | None => None end)" % (r.code, x, bv.code), ("opt", erase(bv.ty)))
                pd, d = self.expr(args[0], env, ctx, erase(bv.ty) if not isinstance(erase(bv.ty), tuple) else None)
                d, bv = self.unify(d, bv) if is_int(d.ty) and is_int(bv.ty) else (d, bv)
                if pd:
                    raise Untranslatable("default may panic")
                ty, lo, hi = self.join([d, bv], exp)
                return pre, V("(match %s with Some %s => %s | None => %s end)" % (r.code, x, bv.code, d.code), ty, lo, hi)
            if name == "unwrap_or" and len(args) == 1:
                ety = rt[1]
                p2, d = self.expr(args[0], env, ctx, ety if ety in INT_BITS else None)
                d = self.coerce(d, ety)
                x = ctx.fresh("x")
                return pre + p2, self.typed("(match %s with Some %s => %s | None => %s end)" % (r.code, x, x, d.code), ety)
            raise Untranslatable("option method ." + name)
        if rt == "bool":
            raise Untranslatable("bool method ." + name)
        if not is_int(rt):
            raise Untranslatable("method .%s on %s" % (name, rt))
        if rt == "int?":
            r = self.coerce(r, exp if exp in INT_BITS else None)
            if r.ty == "int?":
                raise Untranslatable("method on an untyped literal")
            rt = r.ty
        bits, m = INT_BITS[rt], tmax(rt)
        if name in ("min", "max") and len(args) == 1:
            pb, b = self.expr(args[0], env, ctx, rt)
            b = self.coerce(b, rt)
            f = min if name == "min" else max
            return pre + pb, V("(N.%s %s %s)" % (name, r.code, b.code), rt, f(r.lo, b.lo), f(r.hi, b.hi))
        if name in ("wrapping_add", "wrapping_sub", "wrapping_mul") and len(args) == 1:
            pb, b = self.expr(args[0], env, ctx, rt)
            b = self.coerce(b, rt)
            pc, v = self.arith({"wrapping_add": "+", "wrapping_sub": "-", "wrapping_mul": "*"}[name], r, b, ctx, wrapping=True)
            if name == "wrapping_sub" and "mod" not in v.code and r.lo < b.hi:
                v = V("((%s + %d - %s) mod %d)" % (r.code, m + 1, b.code, m + 1), rt, 0, m)
            return pre + pb + pc, v
        if name in ("checked_sub", "checked_add", "checked_mul") and len(args) == 1:
            pb, b = self.expr(args[0], env, ctx, rt)
            b = self.coerce(b, rt)
            if name == "checked_sub":
                cond, val = "(%s <=? %s)" % (b.code, r.code), V("(%s - %s)" % (r.code, b.code), rt, max(0, r.lo - b.hi), max(0, r.hi - b.lo))
            else:
                o = "+" if name == "checked_add" else "*"
                c = "(%s %s %s)" % (r.code, o, b.code)
                cond, val = "(%s <=? %d)" % (c, m), V(c, rt, 0, m)
            return pre + pb, V("(if %s then Some %s else None)" % (cond, val.code), ("opt", rt), opt=("cond", cond, val))
        if name == "saturating_sub" and len(args) == 1:
            pb, b = self.expr(args[0], env, ctx, rt)
            b = self.coerce(b, rt)
            return pre + pb, V("(%s - %s)" % (r.code, b.code), rt, max(0, r.lo - b.hi), max(0, r.hi - b.lo))
        if name in ("wrapping_shl", "wrapping_shr", "rotate_left", "rotate_right") and len(args) == 1:
            pb, b = self.expr(args[0], env, ctx, "u32")
            if b.const is None:
                raise Untranslatable(name + " by a non-constant amount")
            n = b.const % bits
            if name == "wrapping_shr":
                return pre + pb, V("(N.shiftr %s %d)" % (r.code, n), rt, r.lo >> n, r.hi >> n) if n else r
            if name == "wrapping_shl":
                return pre + pb, V("((N.shiftl %s %d) mod %d)" % (r.code, n, m + 1), rt, 0, m) if n else r
            if n == 0:
                return pre + pb, r
            l = n if name == "rotate_left" else bits - n
            return pre + pb, V("(N.lor (N.shiftr %s %d) ((N.shiftl %s %d) mod %d))" % (r.code, bits - l, r.code, l, m + 1), rt, 0, m)
        if name == "leading_zeros" and not args:
            return pre, V("(%d - N.size %s)" % (bits, r.code), "u32", bits - r.hi.bit_length(), bits - r.lo.bit_length())
        if name == "trailing_zeros" or name == "count_ones":
            raise Untranslatable("method ." + name)
        if name == "pow":
            raise Untranslatable("method .pow")
        if name in ("into", "clone") and not args:
            return pre, r
        raise Untranslatable("method .%s on %s" % (name, rt))


NODE_FIELDS = [("version", "u64"), ("start", "usize"), ("end", "usize"), ("ntrans", "usize"), ("sizes", "PackSizes"), ("is_final", "bool")]


def collapse_node(params):
    out, i = [], 0
    while i < len(params):
        rt, g = params[i]
        if rt == "u64" and i + len(NODE_FIELDS) <= len(params) and g.endswith("_version") and params[i + 1][1].endswith("_start"):
            out.append((("node",), g))
            i += len(NODE_FIELDS)
        else:
            out.append((rt, g))
            i += 1
    return out


def find_call(e, name):
    """first method call .name(..) in an expression"""
    if isinstance(e, tuple):
        if e and e[0] == "method" and e[1] == name:
            return e
        for x in e:
            r = find_call(x, name)
            if r is not None:
                return r
    elif isinstance(e, list):
        for x in e:
            r = find_call(x, name)
            if r is not None:
                return r
    return None


def find_index(e, base):
    """first ('index', path base, ix) in an AST"""
    if isinstance(e, tuple):
        if e and e[0] == "index" and e[1] == ("path", [base]):
            return e[2]
        for x in e:
            r = find_index(x, base)
            if r is not None:
                return r
    elif isinstance(e, list):
        for x in e:
            r = find_index(x, base)
            if r is not None:
                return r
    return None
