#!/bin/sh
# usage: build_model.sh <group>   e.g. c18 — compiles ocaml/build/model_<group> from
# coq/<group>_model.ml{,i} (written by coqc from coq/extract/Extract<GROUP>.v) + conv.ml + drv_<group>.ml
set -e
g=$1
root=$(cd "$(dirname "$0")/.." && pwd)
b=$root/ocaml/build/$g
mkdir -p "$b"
cp "$root/coq/${g}_model.ml" "$root/coq/${g}_model.mli" "$b/"
G=$(echo "$g" | cut -c1 | tr a-z A-Z)$(echo "$g" | cut -c2-)
{ echo "open ${G}_model"; cat "$root/ocaml/conv.ml" "$root/ocaml/drv_$g.ml"; } > "$b/main_$g.ml"
cd "$b"
ocamlfind ocamlopt -O3 -w -a -package str -linkpkg ${g}_model.mli ${g}_model.ml main_$g.ml -o "$root/ocaml/build/model_$g" 2>/dev/null \
 || ocamlfind ocamlopt -w -a -package str -linkpkg ${g}_model.mli ${g}_model.ml main_$g.ml -o "$root/ocaml/build/model_$g"
