#!/bin/sh
# dev helper: difftest.sh <ID> <group> [tier] — run harness + model, print mismatch summary (no Coq, no evidence)
id=$1; g=$2; tier=${3:-quick}
root=$(cd "$(dirname "$0")/.." && pwd)
w=$root/work/dev_$id; rm -rf "$w"; mkdir -p "$w"
( cd "$root/harness" && RUSTFLAGS="--cfg burntsushi_fst_verif" cargo build --release --offline 2>&1 | grep -E "^error" -A8 )
/usr/bin/time -f "harness %es" "$root/harness/target/release/fstv-harness" "$id" gen "$w" "$tier" "${VERIF_SEED:-1}" || exit 1
n=$(wc -l < "$w/cases.txt")
if [ "$4" = feed ]; then "$root/tools/feed.py" "$w/cases.txt" "$w/impl.out" "$w/fed.txt"; split -n l/16 -d "$w/fed.txt" "$w/sh"; else
split -n l/16 -d "$w/cases.txt" "$w/sh"; fi
t0=$(date +%s)
for f in "$w"/sh??; do "$root/ocaml/build/model_$g" < "$f" > "$f.out" & done; wait
cat "$w"/sh??.out > "$w/model.out"; rm -f "$w"/sh??*
echo "model $(( $(date +%s) - t0 ))s, $n cases"
python3 - "$w" <<'PY'
import sys
w=sys.argv[1]
c=open(w+'/cases.txt').read().split('\n'); a=open(w+'/impl.out').read().split('\n'); b=open(w+'/model.out').read().split('\n')
def f(l): return dict(x.split(':',1) for x in l.split('\t') if ':' in x)
ns=nm=nx=0
for i in range(len(c)-1):
    fa,fb=f(a[i]),f(b[i])
    if fa.get('S')!=fb.get('S') or 'S' not in fa:
        ns+=1
        if ns<4: print('S-DIFF',c[i][:300],'\n  impl',a[i][:400],'\n  modl',b[i][:400])
    elif fa.get('X','ok')!='ok':
        nx+=1
        if nx<4: print('X',c[i][:300],fa['X'])
    elif fa.get('M')!=fb.get('M'):
        nm+=1
        if nm<4: print('M-DIFF',c[i][:300],'\n  impl',fa['M'][:400],'\n  modl',fb['M'][:400])
print('cases',len(c)-1,'S',ns,'M',nm,'X',nx)
PY
