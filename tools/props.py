"""Per-property configuration of tools/check."""

TRUSTED_BASE_COMMON = [
    "Coq 8.16.1 kernel incl. vm_compute conversion (no native_compute)",
    "Print Assumptions of every property theorem: expected 'Closed under the global context' (allow-list below is empty)",
    "hand-written Gallina model of the Rust code; tie = differential correspondence (tools/check) + constants translator tools/srcparams.py + translator of leaf functions tools/rustfun.py (tokenizer, parser, interval analysis, Gallina printer; its output is tied to the model by the lemmas of coq/SrcFunTie.v, proved on every run)",
    "extraction: ExtrOcamlBasic only (Extract Inductive bool/option/list/prod/unit/sumbool/sumor to OCaml natives); OCaml 4.13.1; ocaml/conv.ml + per-group driver -- cross-checked on every run: a sub-sample of the cases is re-evaluated inside Coq (vm_compute) through the independent translator tools/crosscheck.py and must print the same S and M (evidence: extraction_crosscheck)",
    "Rust harness (harness/): generators, canonicalisation, comparison; rustc/cargo of the sandbox",
]

# axioms of the Coq standard library that a theorem may depend on (none needed so far)
AXIOM_ALLOWLIST = set()


import importlib.util, os, glob
PROPS = {}
for _p in sorted(glob.glob(os.path.join(os.path.dirname(os.path.abspath(__file__)), "propcfg", "C*.py"))):
    _spec = importlib.util.spec_from_file_location(os.path.basename(_p)[:-3], _p)
    _m = importlib.util.module_from_spec(_spec)
    _spec.loader.exec_module(_m)
    PROPS[os.path.basename(_p)[:-3]] = _m.CFG

# Properties whose model builds or reads nodes depend on the leaf functions that tools/rustfun.py translates
# from the source on every run; coq/SrcFunTie.v (tie lemmas, proved for all inputs) is one of their obligations.
SRCFUN_TIE_PROPS = "C01 C02 C03 C04 C05 C06 C07 C08 C09 C10 C11 C12 C13 C15 C16 C17 C18 C20".split()
for _pid in SRCFUN_TIE_PROPS:
    for _t in ("SrcFunTie.vo", "SrcFunTie2.vo"):
        if _pid in PROPS and _t not in PROPS[_pid].setdefault("coq_targets", []):
            PROPS[_pid]["coq_targets"].append(_t)
