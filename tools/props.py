"""Per-property configuration of tools/check."""

TRUSTED_BASE_COMMON = [
    "Coq 8.16.1 kernel incl. vm_compute conversion (no native_compute)",
    "Print Assumptions of every property theorem: expected 'Closed under the global context' (allow-list below is empty)",
    "hand-written Gallina model of the Rust code; tie = differential correspondence (tools/check) + constants translator tools/srcparams.py",
    "extraction: ExtrOcamlBasic only (Extract Inductive bool/option/list/prod/unit/sumbool/sumor to OCaml natives); OCaml 4.13.1; ocaml/conv.ml + per-group driver -- cross-checked on every run: a sub-sample of the cases is re-evaluated inside Coq (vm_compute) through the independent translator tools/crosscheck.py and must print the same S and M (evidence: extraction_crosscheck)",
    "Rust harness (harness/): generators, canonicalisation, comparison; rustc/cargo of the sandbox",
]

# axioms of the Coq standard library that a theorem may depend on (none needed so far)
AXIOM_ALLOWLIST = set()


import importlib.util, os, glob
PROPS = {}
for _p in sorted(glob.glob(os.path.join(os.path.dirname(os.path.abspath(__file__)), "propcfg", "C*.py"))):
    _spec = importlib.util.spec_from_file_location(os.path.basename(_p)[:-3], _p)
    _m = importlib.util.module_from_spec(_spec)
    _spec.loader.exec_module(_m)
    PROPS[os.path.basename(_p)[:-3]] = _m.CFG
