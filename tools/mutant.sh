#!/bin/sh
# tools/mutant.sh <patch.diff> <ID>...  — evaluate a seeded change WITHOUT touching /repo:
# applies it to a private copy of /repo, runs the given checks from a private clone of this
# directory against that copy (VERIF_REPO), prints one line per check, then reverts the copy.
set -u
patch=$1; shift
root=$(cd "$(dirname "$0")/.." && pwd)
slot=${MUT_SLOT:-}; mr=/root/work/mutrepo$slot; mv=/root/work/muteval$slot
if [ ! -d "$mr/.git" ]; then rm -rf "$mr"; git clone -q /repo "$mr"; fi
git -C "$mr" fetch -q /repo HEAD 2>/dev/null && git -C "$mr" reset -q --hard FETCH_HEAD
if [ ! -d "$mv/.git" ]; then rm -rf "$mv"; git clone -q "$root" "$mv"; fi
( cd "$mv" && git fetch -q "$root" HEAD && git reset -q --hard FETCH_HEAD; mkdir -p work )
sed -i "s|path = \"/repo\"|path = \"$mr\"|" "$mv/harness/Cargo.toml"
git -C "$mr" apply "$patch" 2>/dev/null || git -C "$mr" apply -3 "$patch" || { echo "patch does not apply"; exit 2; }
export VERIF_REPO=$mr
for id in "$@"; do
  ( cd "$mv" && timeout 1800 tools/check "$id" quick > "$mv/work/mut_$id.log" 2>&1; echo "-- $id exit: $?" )
  grep -E "^(VIOLATION|KNOWN-FINDING|$id )" "$mv/work/mut_$id.log" | cut -c1-300
  r=$(grep -o "replay=[^ ]*" "$mv/work/mut_$id.log" | head -1 | cut -d= -f2); [ -n "$r" ] && python3 -c "
import json,sys
d=json.load(open('$r'))
print('   replay:', {k:(str(v)[:300]) for k,v in d.items() if k in ('kind','case','cases','impl','model_and_spec','theorem_or_file','name','detail')})"
done
git -C "$mr" checkout -q -- . ; git -C "$mr" clean -fdq
