#!/bin/sh
# tools/confirm_mutant.sh <ID> <outdir-with-patch.diff-meta.json-demo>  — confirm, in a scratch clone outside /repo,
# that a seeded change compiles, passes the existing suite, and that its demonstration fails with it and passes without.
id=$1; src=$2
cr=/root/work/confrepo
[ -d "$cr/.git" ] || git clone -q /repo "$cr"
git -C "$cr" fetch -q /repo HEAD && git -C "$cr" reset -q --hard FETCH_HEAD && git -C "$cr" clean -fdq -e target
export CARGO_NET_OFFLINE=true
cd "$cr" || exit 2
git apply "$src/patch.diff" || { echo "$id: PATCH-DOES-NOT-APPLY"; exit 2; }
suite=$(cargo test --workspace --no-fail-fast --offline 2>&1 | grep -E "^test result" | awk '{p+=$4; f+=$6} END {print p" passed "f" failed"}')
# the demonstration: a rust test file or a shell script
demo=$(ls "$src" | grep -E "^demo" | head -1)
run_demo() {
  case "$demo" in
    *.rs) cp "$src/$demo" tests/"$demo"; cargo test --offline --features levenshtein --test "${demo%.rs}" >/tmp/confirm_demo.log 2>&1; r=$?; rm -f tests/"$demo";;
    *.sh) mkdir -p "$cr/_out"; sed "s|/tmp/mut5/$id|$cr|g; s|/tmp/mut4/$id|$cr|g; s|/tmp/mut3/$id|$cr|g; s|/tmp/mut2/$id|$cr|g; s|/tmp/mut/$id|$cr|g" "$src/$demo" > "$cr/_out/$demo"; sh "$cr/_out/$demo" >/tmp/confirm_demo.log 2>&1; r=$?; rm -rf "$cr/_out";;
    *) r=99;;
  esac
  return $r
}
run_demo; with=$?
git apply -R "$src/patch.diff"
run_demo; without=$?
echo "$id: suite_with_patch=[$suite] demo_with_patch_exit=$with demo_without_patch_exit=$without"
git -C "$cr" reset -q --hard; git -C "$cr" clean -fdq -e target
