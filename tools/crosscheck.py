#!/usr/bin/env python3
"""tools/crosscheck.py — the extraction cross-check of tools/check.

The theorems are about Gallina definitions; the correspondence check runs their EXTRACTED OCaml
versions through hand-written drivers (ocaml/drv_*.ml).  Here a sub-sample of the run's cases is
translated, by this file alone, from the case-line syntax to Coq terms, evaluated INSIDE Coq with
vm_compute on the very definitions the theorems mention, rendered by this file with the text
conventions of the protocol, and compared with the S and M fields the OCaml executable printed.

Nothing here reads ocaml/ or calls the model executable: the translator case line -> Coq term and
the renderer Coq value -> text are a second, independent implementation of what the drivers do.

Adding a kind = one `Kind(...)` entry in KINDS:
    name      the word used in propcfg `coq_crosscheck`
    imports   Coq modules to Require
    eligible  (case, model_line) -> bool     which case lines this kind can translate
    emit      (n, case, impl_line) -> (definitions, S term or None, M term or None)
    render    (case, impl_line, S value, M value) -> (S text or None, M text or None)
`None` = that field is not cross-checked for this kind.  One `Eval vm_compute in (n, S, M)` is
printed per case; parse_term turns what Coq prints into Python values (int, str for constants,
App(name, args), tuple, list).

Stand-alone use (development): tools/crosscheck.py <pid> <run-directory> [kinds]
"""
import os, re, subprocess, sys, time
from collections import namedtuple

ROOT = os.path.dirname(os.path.dirname(os.path.abspath(__file__)))
COQ = os.path.join(ROOT, "coq")

# ----------------------------------------------------------------------------------------------
# what Coq prints -> Python values
# ----------------------------------------------------------------------------------------------
App = namedtuple("App", "name args")
_TOK = re.compile(r"\s*(?:(\d+)|([A-Za-z_][A-Za-z_0-9'.]*)|(\{\||\|\}|:=|[()\[\];,:=%]))")


def tokenize(s):
    out, i = [], 0
    s = s.rstrip()
    while i < len(s):
        m = _TOK.match(s, i)
        if not m:
            raise ValueError("cannot tokenize Coq output at %r" % s[i:i + 40])
        if m.group(1) is not None:
            out.append(("n", int(m.group(1))))
        elif m.group(2) is not None:
            out.append(("i", m.group(2)))
        else:
            out.append(("p", m.group(3)))
        i = m.end()
    return out


class _P:
    def __init__(self, toks):
        self.t, self.i = toks, 0

    def peek(self):
        return self.t[self.i] if self.i < len(self.t) else ("e", None)

    def take(self, want=None):
        tok = self.peek()
        if want is not None and tok != ("p", want):
            raise ValueError("expected %r, saw %r" % (want, tok))
        self.i += 1
        return tok

    def scope(self, v):
        while self.peek() == ("p", "%"):
            self.take(); self.take()          # %nat, %N, ... : a printing artefact, not part of the value
        return v

    def atom(self):
        k, v = self.peek()
        if k == "n":
            self.take(); return self.scope(v)
        if k == "i":
            self.take(); return self.scope(v)
        if (k, v) == ("p", "("):
            self.take()
            xs = [self.term()]
            while self.peek() == ("p", ","):
                self.take(); xs.append(self.term())
            self.take(")")
            return self.scope(xs[0] if len(xs) == 1 else tuple(xs))
        if (k, v) == ("p", "["):
            self.take()
            xs = []
            if self.peek() != ("p", "]"):
                xs.append(self.term())
                while self.peek() == ("p", ";"):
                    self.take(); xs.append(self.term())
            self.take("]")
            return self.scope(xs)
        if (k, v) == ("p", "{|"):
            self.take()
            d = {}
            while self.peek() != ("p", "|}"):
                name = self.take()[1]; self.take(":="); d[name] = self.term()
                if self.peek() == ("p", ";"):
                    self.take()
            self.take("|}")
            return self.scope(App("record", [d]))
        raise ValueError("unexpected token %r" % (self.peek(),))

    def starts_atom(self):
        k, v = self.peek()
        return k in ("n", "i") or (k == "p" and v in ("(", "[", "{|"))

    def term(self):
        k, v = self.peek()
        if k == "i":
            self.take()
            head = self.scope(v)
            args = []
            while self.starts_atom():
                args.append(self.atom())
            return App(head, args) if args else head
        return self.atom()


def value_part(s):
    """`value : type` -> `value`: the first ':' outside all brackets that is not part of ':='"""
    depth = 0
    for i, ch in enumerate(s):
        if ch in "([{":
            depth += 1
        elif ch in ")]}":
            depth -= 1
        elif ch == ":" and depth == 0 and s[i + 1:i + 2] != "=":
            return s[:i]
    return s


def parse_term(s):
    """value part of `= value : type` (the type is not looked at)"""
    p = _P(tokenize(value_part(s)))
    v = p.term()
    if p.peek() not in (("p", ":"), ("e", None)):
        raise ValueError("trailing tokens after the value: %r" % (p.peek(),))
    return v


def parse_evals(out):
    """all `= ... : ...` answers of a coqc run, in order, as Python values (None where unparsable)"""
    res = []
    parts = re.split(r"(?m)^\s*= ", "\n" + out)
    for blk in parts[1:]:
        # the answer ends where the next top-level message starts; coqc prints nothing else for our files
        # except errors ("File ..., line ..."), which we cut off
        blk = re.split(r"(?m)^(?:File \"|Error|Warning)", blk)[0]
        blk = " ".join(blk.split())
        try:
            res.append(parse_term(blk))
        except ValueError as ex:
            res.append(("UNPARSABLE", str(ex)[:80], blk[:80]))
    return res


# ----------------------------------------------------------------------------------------------
# case-line syntax -> Coq terms
# ----------------------------------------------------------------------------------------------
def hexbytes(h):
    h = h.strip()
    return [] if h in ("-", "") else [int(h[i:i + 2], 16) for i in range(0, len(h) - len(h) % 2, 2)]


def coq_list(xs):
    return "[" + "; ".join(str(x) for x in xs) + "]"


def coq_bytes(h):
    return coq_list(hexbytes(h))


def coq_nat(i):
    return "%d%%nat" % int(i)


def coq_bool(b):
    return "true" if b else "false"


def coq_ops(opstr):
    opstr = opstr.strip()
    if opstr in ("_", ""):
        return "[]"
    out = []
    for t in opstr.split(","):
        f = t.split(":")
        if f[0] == "i" and len(f) == 3:
            out.append("OpInsert %s %s" % (coq_bytes(f[1]), int(f[2])))
        elif f[0] == "a" and len(f) == 2:
            out.append("OpAdd %s" % coq_bytes(f[1]))
        else:
            raise ValueError("op " + t)
    return "[" + "; ".join(out) + "]"


def coq_calls(s):
    s = s.strip()
    if s in ("none", ""):
        return "[]"
    out = []
    for t in s.split(" "):
        k, _, h = t.partition(":")
        out.append("%s %s" % ({"ge": "BGe", "gt": "BGt", "le": "BLe", "lt": "BLt"}[k], coq_bytes(h)))
    return "[" + "; ".join(out) + "]"


def coq_ranges(s):
    return "[" + "; ".join(coq_calls(r) for r in s.strip().split("/")) + "]"


def coq_aexp(toks):
    """prefix expression -> (Coq aexp, python shape, rest).  shape: ('STR',) ('SUB',) ('TAB',) ('ALWAYS',) ('?',)"""
    t = toks[0]
    if t == "STR":
        return "(AStr %s)" % coq_bytes(toks[1]), "STR", toks[2:]
    if t == "SUB":
        return "(ASubseq %s)" % coq_bytes(toks[1]), "SUB", toks[2:]
    if t == "ALWAYS":
        return "AAlways", "ALWAYS", toks[1:]
    if t == "TAB":
        k = int(toks[1])
        nxt = [] if toks[2] in ("", "-") else [int(x) for x in toks[2].split(",")]
        bits = lambda s: "[" + "; ".join("true" if c == "1" else "false" for c in s) + "]"
        cls = coq_list([b % k for b in range(256)])
        return ("(ATable {| t_ncls := %d%%nat; t_cls := %s%%nat; t_next := %s%%nat; t_match := %s; t_can := %s; "
                "t_will := %s; t_start := %d%%nat |})" % (k, cls, coq_list(nxt), bits(toks[3]), bits(toks[4]), bits(toks[5]), int(toks[6]))), "TAB", toks[7:]
    if t in ("SW", "C"):
        a, _, r = coq_aexp(toks[1:])
        return "(%s %s)" % ({"SW": "AStartsWith", "C": "ACompl"}[t], a), "?", r
    if t in ("U", "I"):
        a, _, r = coq_aexp(toks[1:])
        b, _, r = coq_aexp(r)
        return "(%s %s %s)" % ({"U": "AUnion", "I": "AInter"}[t], a, b), "?", r
    raise ValueError("aexp " + t)


# ----------------------------------------------------------------------------------------------
# Coq values -> protocol text
# ----------------------------------------------------------------------------------------------
def hx(bs):
    return "-" if not bs else "".join("%02x" % b for b in bs)


def is_app(v, name, nargs=None):
    return isinstance(v, App) and v.name == name and (nargs is None or len(v.args) == nargs)


def str_kvs(m):
    return "_" if not m else ",".join("%s:%d" % (hx(k), v) for (k, v) in m)


def ok_or_panic(v, f):
    return f(v.args[0]) if is_app(v, "Ok", 1) else "PANIC"


def opt(v, f, none="~"):
    if v == "None":
        return none
    if is_app(v, "Some", 1):
        return f(v.args[0])
    raise ValueError("option expected: %r" % (v,))


def coq_b(v):
    if v not in ("true", "false"):
        raise ValueError("bool expected: %r" % (v,))
    return v == "true"


CORE = ["Generated.SrcParams", "Base", "Pack", "Node", "Registry", "Builder", "Reader", "Automaton", "Fst", "Format", "Crc"]
# the bytes the driver's build_bytes hands to the reader model: default type 0 and the geometry read from the sources
BUILD_BYTES = ("(match (let '(b, r) := run_extend (new_builder 0 src_registry_rows src_registry_cols) %s in "
               "match r with Ok _ => b_finish model_masked_crc32c b | _ => Panic end) with Ok bs => bs | _ => [] end)")


def sections(case):
    """`<kind> a ; b ; c` -> [a, b, c] (kind word dropped)"""
    return case.split(" ", 1)[1].split(";")


def core_defs(n, ops):
    return ["Definition c%d := Eval vm_compute in spec_content None %s []." % (n, coq_ops(ops)),
            "Definition b%d := Eval vm_compute in %s." % (n, BUILD_BYTES % coq_ops(ops))]


def probes_of(s):
    return [p for p in s.strip().split(" ") if p != ""]


# ---- get (C02) ----
def emit_get(n, case, impl):
    ops, probes = sections(case)
    ps = "[" + "; ".join(coq_bytes(p) for p in probes_of(probes)) + "]"
    return (core_defs(n, ops), "map (lookup c%d) %s" % (n, ps),
            "(let '(na, root) := view_of b%d in map (fun k => (fst_get na root k, fst_contains na root k)) %s)" % (n, ps))


def render_get(case, impl, s, m):
    st = ",".join(opt(x, lambda v: "%d/1" % v, "~/0") for x in s)
    mt = ",".join(ok_or_panic(g, lambda o: opt(o, str)) + "/" + ok_or_panic(c, lambda b: "1" if coq_b(b) else "0") for (g, c) in m)
    return st, mt


# ---- range (C03) ----
def emit_range(n, case, impl):
    ops, ranges = sections(case)
    rs = coq_ranges(ranges)
    return (core_defs(n, ops), "map (spec_range c%d) %s" % (n, rs),
            "(let '(na, root) := view_of b%d in map (range na root) %s)" % (n, rs))


def render_range(case, impl, s, m):
    return "/".join(str_kvs(x) for x in s), "/".join(ok_or_panic(x, str_kvs) for x in m)


# ---- getkey (C16) ----
def emit_getkey(n, case, impl):
    ops, vals = sections(case)
    vs = coq_list([int(v) for v in probes_of(vals)])
    return (core_defs(n, ops), "map (spec_get_key c%d) %s" % (n, vs),
            "(let '(na, root) := view_of b%d in map (get_key na root) %s)" % (n, vs))


def render_getkey(case, impl, s, m):
    return ",".join(opt(x, hx) for x in s), ",".join(ok_or_panic(x, lambda o: opt(o, hx)) for x in m)


# ---- search (C04) ----
def emit_search(n, case, impl):
    ops, e, ws, ranges = sections(case)
    exp, _, rest = coq_aexp(e.strip().split(" "))
    rs = coq_ranges(ranges)
    defs = core_defs(n, ops) + ["Definition e%d : aexp := %s." % (n, exp), "Definition a%d : automaton := denote e%d." % (n, n)]
    return (defs, "map (spec_search c%d a%d) %s" % (n, n, rs),
            "(let '(na, root) := view_of b%d in map (search_with_state na root a%d) %s)" % (n, n, rs))


def str_state(shape, st):
    if shape == "STR":
        return opt(st, lambda p: "S%d" % p, "N")
    if shape in ("SUB", "TAB"):
        return "%d" % st
    if shape == "ALWAYS":
        return "u"
    return "?"


def render_search(case, impl, s, m):
    _, e, ws, _ = sections(case)
    _, shape, _ = coq_aexp(e.strip().split(" "))
    with_state = ws.strip() == "ws"

    def items(l):
        return "_" if not l else ",".join("%s:%d" % (hx(k), v) + (":" + str_state(shape, st) if with_state else "") for (k, v, st) in l)
    return "/".join(items(x) for x in s), "/".join(ok_or_panic(x, items) for x in m)


# ---- old / openclass (C10) ----
def emit_old(n, case, impl):
    hd, probes, ranges = sections(case)
    _v, hexb, ops = hd.strip().split(" ")
    ps = "[" + "; ".join(coq_bytes(p) for p in probes_of(probes)) + "]"
    rs = coq_ranges(ranges)
    defs = ["Definition c%d := Eval vm_compute in spec_content None %s []." % (n, coq_ops(ops)),
            "Definition b%d : list N := %s." % (n, coq_bytes(hexb))]
    return (defs, "(c%d, N.of_nat (length c%d), map (lookup c%d) %s, map (spec_range c%d) %s)" % (n, n, n, ps, n, rs),
            "(api_stream b%d, api_len b%d, map (api_get b%d) %s, map (api_range b%d) %s)" % (n, n, n, ps, n, rs))


def render_old(case, impl, s, m):
    c, ln, g, r = s
    st = "c=%s;len=%d;g=%s;r=%s" % (str_kvs(c), ln, ",".join(opt(x, str) for x in g), "/".join(str_kvs(x) for x in r))
    c, ln, g, r = m
    mt = "c=%s;len=%d;g=%s;r=%s" % (ok_or_panic(c, str_kvs), ln, ",".join(ok_or_panic(x, lambda o: opt(o, str)) for x in g),
                                    "/".join(ok_or_panic(x, str_kvs) for x in r))
    return st, mt


OPEN_CLASSES = ["ok", "version", "format", "version-or-format", "ok-or-format"]


def emit_openclass(n, case, impl):
    _, l, v = case.split(" ")
    t = "spec_open_class %d %d" % (int(l), int(v))
    return [], t, t


def render_openclass(case, impl, s, m):
    return OPEN_CLASSES[s], OPEN_CLASSES[m]


# ---- build (C01 C06 C12 C15) ----
def elig_build(case, model):
    f = case.split(" ")
    return len(f) == 7 and f[1] in ("calls", "extend", "fromiter", "batches") and len(case) < 600


def emit_build(n, case, impl):
    _, sem, fe, ty, rows, cols, ops = case.split(" ")
    nb = "(new_builder %d %d %d)" % (int(ty), int(rows), int(cols))
    if sem == "batches":
        # several extend batches on one builder: the composition is Builder.run_batches / batches_written and
        # Fst.spec_batches (the definitions the C06 batch theorems are about), nothing is folded here
        defs = ["Definition o%d : list (list op) := [%s]." % (n, "; ".join(coq_ops(b) for b in ops.split("|"))),
                "Definition b%d := Eval vm_compute in run_batches %s o%d." % (n, nb, n)]
        s = "(let '(acc, rs, _) := spec_batches None o%d in (rs, spec_content None acc []))" % n
        m = "(b_finish_full model_masked_crc32c (fst b%d), batches_written %s o%d, b_stats (fst b%d), true)" % (n, nb, n, n)
        return defs, s, m
    o = coq_ops(ops)
    defs = ["Definition o%d : list op := %s." % (n, o),
            "Definition b%d := Eval vm_compute in %s %s o%d." % (n, "run_calls" if sem == "calls" else "run_extend", nb, n)]
    if sem == "calls":
        s = "(spec_calls None o%d, spec_content None o%d [])" % (n, n)
        # bytes_written after every call: the driver iterates apply_op itself; here the same fold is a Coq term
        bw = ("((fix go (b : builder) (l : list op) : list N := match l with [] => [] | x :: r => let b' := fst (apply_op b x) in "
              "b_count b' :: go b' r end) %s o%d)" % (nb, n))
        alive = "true"
    else:
        s = "(let '(p, r) := accepted_prefix None o%d in ([r], spec_content None p []))" % n
        bw = "[b_count (fst b%d)]" % n
        # extend_iter / extend_stream leave a usable builder behind; from_iter returns the error instead of an FST
        alive = "true" if sem == "extend" else "(match snd b%d with Ok _ => true | _ => false end)" % n
    m = ("(if %s then b_finish_full model_masked_crc32c (fst b%d) else Err EChecksumMissing, %s, b_stats (fst b%d), %s)" % (alive, n, bw, n, alive))
    return defs, s, m


def str_res(r):
    if is_app(r, "Ok"):
        return "ok"
    if r == "Panic":
        return "PANIC"
    if is_app(r, "Err", 1):
        e = r.args[0]
        if is_app(e, "EDuplicateKey", 1):
            return "dup:" + hx(e.args[0])
        if is_app(e, "EOutOfOrder", 2):
            return "ooo:%s:%s" % (hx(e.args[0]), hx(e.args[1]))
        return "err"
    raise ValueError("res expected: %r" % (r,))


def render_build(case, impl, s, m):
    _, sem, fe, ty, rows, cols, ops = case.split(" ")
    rs, content = s
    fin, bw, stats, alive = m
    st = "r=" + ",".join(str_res(r) for r in rs) + (";c=%s;len=%d" % (str_kvs(content), len(content)) if coq_b(alive) else ";nofst")
    if is_app(fin, "Ok", 1):
        bs, stats = fin.args[0]
        mstr = "bytes=" + hx(bs)
    else:
        mstr = "PANIC" if fin == "Panic" else "nofst"
    if sem == "batches":        # bytes_written after every batch, no cache counters
        return st, "%s;bw=%s;st=na" % (mstr, "".join("%d," % x for x in bw))
    bws = "na" if fe in ("all", "dirty") else "".join("%d," % x for x in bw) if sem == "calls" else "" if sem == "fromiter" else "%d" % bw[0]
    mt = "%s;bw=%s;st=%s" % (mstr, bws, ",".join(str(x) for x in stats) if fe in ("raw", "raw_loop") else "na")
    return st, mt


# ---- fmt (C09): the format specification on the bytes the IMPLEMENTATION wrote; model builder bytes ----
def impl_bytes(impl):
    m = re.search(r"bytes=([0-9a-f-]+)", impl)
    return m.group(1) if m else None


def elig_fmt(case, model):
    return len(case) < 400 and len(case.split(" ")) == 6


def emit_fmt(n, case, impl):
    _, ty, rows, cols, _cap, ops = case.split(" ")
    h = impl_bytes(impl)
    defs = ["Definition i%d : list N := %s." % (n, coq_bytes(h or "-"))]
    s = ("(match spec_parse i%d with Some p => if wf_fst_b i%d then Some (p_version p, p_ty p, p_content p, p_len p, N.of_nat (length (p_nodes p)), "
         "p_checksum p, model_masked_crc32c (firstn (length i%d - 4) i%d)) else None | None => None end)" % (n, n, n, n))
    m = "(b_finish model_masked_crc32c (fst (run_extend (new_builder %d %d %d) %s)))" % (int(ty), int(rows), int(cols), coq_ops(ops))
    return defs, s, m


def render_fmt(case, impl, s, m):
    if impl_bytes(impl) is None:
        st = "NOBYTES"
    elif s == "None":
        st = "MALFORMED"
    else:
        v, ty, c, ln, nodes, ck, crc = s.args[0]
        cks = opt(ck, lambda x: "ok" if x == crc else "BAD", "none")
        st = "v=%d;ty=%d;c=%s;len=%d;nodes=%d;ck=%s" % (v, ty, str_kvs(c), ln, nodes, cks)
    return st, ("bytes=" + hx(m.args[0]) if is_app(m, "Ok", 1) else "PANIC")


# ---- c05: set operations ----
def c05_streams(s):
    if s == ".":
        return []
    out = []
    for st in s.split("|"):
        out.append([] if st == "_" else [(hexbytes(e.split(":")[0]), int(e.split(":")[1])) for e in st.split(",")])
    return out


def coq_streams(ss):
    return "[" + "; ".join("[" + "; ".join("(%s, %d)" % (coq_list(k), v) for (k, v) in st) + "]" for st in ss) + "]"


# the model runs are evaluated over the NON-INERT streams [poisoned s] (like the driver does); besides the items they
# return, per stream, (polls, polls after its None); the sum of the second components is the "|repoll=" of M
C05_OPS = {"union": ("spec_union", "run_union_on %s"), "intersection": ("spec_sel OpInter", "run_sel_on %s OpInter"),
           "symdiff": ("spec_sel OpSymdiff", "run_sel_on %s OpSymdiff"), "difference": ("spec_difference", "run_difference_on %s")}
C05_PREDS = {"disjoint": ("spec_disjoint", "is_disjoint_on pop_min_left"), "subset": ("spec_subset", "is_subset_on pop_min_left %d"),
             "superset": ("spec_superset", "is_superset_on pop_min_left %d")}


def elig_c05(case, model):
    f = case.split("\t")
    if len(f) != 3 or len(case) > 200:
        return False
    return f[0] in C05_OPS or (f[0] in C05_PREDS and len(c05_streams(f[2])) == 2)


def emit_c05(n, case, impl):
    op, _, st = case.split("\t")
    ss = c05_streams(st)
    defs = ["Definition s%d : list (list kv) := %s." % (n, coq_streams(ss)),
            "Definition x%d : list instream := map poisoned s%d." % (n, n)]
    if op in C05_OPS:
        spec, run = C05_OPS[op]
        l, r = "(%s x%d)" % (run % "pop_min_left", n), "(%s x%d)" % (run % "pop_min_right", n)
        cn = ("(fun x : fres (list item * list (nat * nat)) => match x with Some (Ok (l, _)) => Some (Ok (canon l)) "
              "| Some (Err e) => Some (Err e) | Some Panic => Some Panic | None => None end)")
        return defs, "%s s%d" % (spec, n), "(%s, %s, %s %s, %s %s)" % (l, r, cn, l, cn, r)
    spec, run = C05_PREDS[op]
    run = run % len(ss[0]) if "%d" in run else run
    a, b = "(nth 0 s%d [])" % n, "(nth 1 s%d [])" % n
    xa, xb = "(poisoned %s)" % a, "(poisoned %s)" % b
    return defs, "%s %s %s" % (spec, a, b), "%s %s %s" % (run, xa, xb)


def show_items(l):
    return "." if not l else ";".join("%s=%s" % (hx(k), ",".join("%d:%d" % (i, v) for (i, v) in outs)) for (k, outs) in l)


def tie_canon(outs):
    """sort every maximal run of equal values by stream index"""
    res, i = [], 0
    while i < len(outs):
        j = i
        while j < len(outs) and outs[j][1] == outs[i][1]:
            j += 1
        res += sorted(outs[i:j], key=lambda iv: iv[0])
        i = j
    return res


def show_fres(r, show):
    if r == "None":
        return "NOFUEL"
    x = r.args[0]
    if x == "Panic":
        return "PANIC"
    if is_app(x, "Err"):
        return "ERR"
    return show(x.args[0])


def c05_repoll(r):
    """"|repoll=<sum of the polls after None>" of a finished run, "" otherwise"""
    if r == "None" or not is_app(r.args[0], "Ok"):
        return ""
    return "|repoll=%d" % sum(again for (_, again) in r.args[0].args[0][1])


def render_c05(case, impl, s, m):
    op, _, st = case.split("\t")
    if op in C05_OPS:
        m1, m2, c1, c2 = m
        sh = lambda r: show_fres(r, lambda lp: show_items([(k, tie_canon(o)) for (k, o) in lp[0]]))
        cs = lambda r: show_fres(r, show_items)
        a, b = sh(m1), sh(m2)
        stxt = "PANIC" if op == "difference" and c05_streams(st) == [] else show_items(s)
        r1, r2 = c05_repoll(m1), c05_repoll(m2)
        return stxt, a + ("" if a == b and cs(c1) == cs(c2) else "!TIE") + (r1 if r1 == r2 else r1 + "!" + r2)
    return s, show_fres(m, lambda bp: bp[0]) + c05_repoll(m)


# ---- c08 / c20: CRC and Fst::new / verify on arbitrary bytes ----
OPEN = ["Base", "Crc", "Open"]
OUTCOME = ("(match fst_new %(b)s with Ok m => Ok (m_checksum m, fst_type m, fst_len m, fst_is_empty m, fst_size %(b)s, m_root_addr m, verify %(b)s m) "
           "| Err e => Err e | Panic => Panic end)")


def string_of_err(e):
    if is_app(e, "EFormat", 1):
        return "Format(%d)" % e.args[0]
    if is_app(e, "EVersion", 2):
        return "Version(%d,%d)" % tuple(e.args)
    return "other"


def outcome_text(o, root, extra=""):
    """(text, total?)"""
    if o == "Panic":
        return "PANIC", False
    if is_app(o, "Err", 1):
        return "E:" + string_of_err(o.args[0]), True
    cs, ty, ln, empty, size, raddr, v = o.args[0]
    tot = True
    if is_app(v, "Ok"):
        vt = "ok"
    elif v == "Panic":
        vt, tot = "PANIC", False
    elif v.args[0] == "EChecksumMissing":
        vt = "Missing"
    elif is_app(v.args[0], "EChecksumMismatch", 2):
        vt = "Mismatch(%d,%d)" % tuple(v.args[0].args)
    else:
        vt = "other"
    return "O:cs=%s,ty=%d,len=%d,empty=%d,size=%d%s%s;V:%s" % (opt(cs, str, "none"), ty, ln, 1 if coq_b(empty) else 0, size,
                                                          ",root=%d" % raddr if root else "", extra, vt), tot


def elig_c08(case, model):
    f = case.split(" ")
    if len(case) > 700:
        return False
    if f[0] == "crc" and len(f) == 2 or f[0] == "bytes" and len(f) == 3:
        return True
    return f[0] in ("corrupt", "burst") and len(f) == 4 and int(f[2]) < 2000


def emit_c08(n, case, impl):
    f = case.split(" ")
    h = f[-1] if f[0] in ("crc", "bytes") else f[1]
    defs = ["Definition b%d : list N := %s." % (n, coq_bytes(h))]
    body = "spec_masked_crc32c (firstn (length b%d - 4) b%d)" % (n, n)
    if f[0] in ("crc", "bytes"):
        return defs, body, OUTCOME % {"b": "b%d" % n}
    t = "b%d" % n
    for i, x in enumerate(hexbytes(f[3])):
        t = "(set_nth %s %s %d)" % (t, coq_nat(int(f[2]) + i), x)
    defs.append("Definition d%d : list N := Eval vm_compute in %s." % (n, t))
    pre = "(match fst_new b%d with Ok m => match verify b%d m with Ok _ => true | _ => false end | _ => false end)" % (n, n)
    return defs, pre, OUTCOME % {"b": "d%d" % n}


def render_c08(case, impl, s, m):
    f = case.split(" ")
    mt = outcome_text(m, False)[0]
    if f[0] == "crc":
        return "%d" % s, mt
    if f[0] == "bytes":
        return "verified %d" % s, mt
    return ("notok", mt) if coq_b(s) else ("precondition-failed", "-")


def elig_c20(case, model):
    f = case.split(" ")
    return f[0] == "open" and len(f) in (2, 3) and len(case) < 700


def emit_c20(n, case, impl):
    f = case.split(" ")
    defs = ["Definition b%d : list N := %s." % (n, coq_bytes(f[1]))]
    return defs, None, "(%s, list_eqb N.eqb (fst_as_bytes b%d) b%d)" % (OUTCOME % {"b": "b%d" % n}, n, n)


def render_c20(case, impl, s, m):
    f = case.split(" ")
    o, same = m
    txt, tot = outcome_text(o, f[2:] == ["R"], "" if coq_b(same) else ",as_bytes=DIFFERENT")
    return ("total", txt) if tot else ("PANIC", "PANIC")


# ---- c18: automata ----
def elig_c18(case, model):
    return len(case.split("\t")) == 2 and len(case) < 300


def emit_c18(n, case, impl):
    e, w = case.split("\t")
    exp, _, _ = coq_aexp(e.split(" "))
    defs = ["Definition e%d : aexp := %s." % (n, exp), "Definition w%d : list N := %s." % (n, coq_bytes(w))]
    return defs, "map (sem e%d) (prefixes w%d)" % (n, n), "trace_exp e%d w%d" % (n, n)


def render_c18(case, impl, s, m):
    return ("".join("1" if coq_b(b) else "0" for b in s),
            "".join(str(4 * coq_b(a) + 2 * coq_b(b) + coq_b(c)) for (a, b, c) in m))


# ---- c19: merge ----
def codes_of_seed(seed, n):
    """the schedule the driver derives from the seed (OCaml native ints are 63-bit two's complement)"""
    M63, MAXINT = 1 << 63, (1 << 62) - 1
    st = (seed * 2654435761 + 12345) % M63
    out = []
    for _ in range(70):
        row = []
        for _ in range(n):
            st = ((st * 2862933555777941757 + 3037000493) % M63) & MAXINT
            row.append((st >> 17) & 0xFFFFF)
        out.append(row)
    return out


def c19_items(s):
    return [] if s in ("_", "") else [(hexbytes(it.split(":")[0]), int(it.split(":")[1])) for it in s.split(",")]


def elig_c19(case, model):
    f = case.split(" ")
    return len(f) == 7 and f[0] in ("set", "sum", "max", "min") and len(c19_items(f[6])) <= 12 and 0 <= int(f[4]) < (1 << 31)


def emit_c19(n, case, impl):
    mode, bs, fd, th, seed, _split, items = case.split(" ")
    inp = c19_items(items)
    seed = int(seed)
    codes = "[" + "; ".join(coq_list(r) for r in codes_of_seed(seed, len(inp))) + "]"
    defs = ["Definition i%d : list kv := %s." % (n, "[" + "; ".join("(%s, %d)" % (coq_list(k), v) for (k, v) in inp) + "]"),
            "Definition o%d : oracle := oracle_of %s %s." % (n, codes, coq_bool(seed & 1 == 1)),
            "Definition nb%d : nat := length (batcher %d i%d)." % (n, int(bs), n)]
    s = "(spec_merge mg_%s i%d, N.of_nat (length (key_set (keys_of i%d))))" % (mode, n, n)
    m = "(union_shape nb%d %d nb%d, merge_all mg_%s o%d %d %d %d i%d)" % (n, int(fd), n, mode, n, int(bs), int(fd), int(th), n)
    return defs, s, m


def render_c19(case, impl, s, m):
    inp = c19_items(case.split(" ")[6])
    spec, nkeys = s
    shape, run = m
    st = "%s|verify=ok|sorted_equal=%s" % (str_kvs(spec), "yes" if nkeys == len(inp) else "na")
    if run == "Diverges":
        mod = "DIVERGES"
    else:
        r = run.args[0]
        mod = "PANIC" if r == "Panic" else "ERR" if is_app(r, "Err") else ("spec" if r.args[0] == spec else str_kvs(r.args[0]))
    return st, "len=%d;shape=%s;model=%s" % (len(spec), "/".join(",".join(str(x) for x in g) for g in shape), mod)


# ---- c07 / c11: writer sessions ----
def coq_ioerr(s):
    named = {"other": "IoOther", "brokenpipe": "IoBrokenPipe", "writezero": "IoWriteZero", "interrupted": "IoInterrupted"}
    if s in named:
        return named[s]
    if len(s) > 1 and s[0] == "k":
        return "(IoKind %d)" % int(s[1:])
    raise ValueError("io error kind " + s)


def coq_script(s):
    if s in ("-", ""):
        return "[]"
    out = []
    for t in s.split(","):
        x, _, k = t.partition("*")
        r = {"a": lambda: "Accept %s" % coq_nat(x[1:]), "i": lambda: "Interrupted", "z": lambda: "Zero", "f": lambda: "Fail %s" % coq_ioerr(x[1:])}[x[0]]()
        out += [r] * (int(k) if k else 1)
    return "[" + "; ".join(out) + "]"


def writer_calls(s):
    cs = [[] if c == "" else [hexbytes(h) for h in c.split(",")] for c in s.split(";")]
    return cs[:-1], cs[-1]


def coq_chunks(c):
    return "[" + "; ".join(coq_list(ch) for ch in c) + "]"


def elig_writer(case, model):
    f = case.split("\t")
    if len(f) == 7 and f[0] == "cont":
        return len(case) <= 700
    if len(f) != 7 or len(case) > 500:
        return False
    return sum(int(t.partition("*")[2] or 1) for t in f[4].split(",") if t not in ("-", "")) <= 400


def emit_writer(n, case, impl):
    f = case.split("\t")
    if f[0] == "cont":
        k, w = f[3][2:].split("/")
        cs, fin = writer_calls(f[6])
        script = "(repeat (Accept %s) %s ++ %s)" % (coq_nat(1000), coq_nat(k), coq_script(f[5]))
        defs = ["Definition o%d := Eval vm_compute in x_cont_session %s FlushOk [] %s %s." % (
            n, script, "[" + "; ".join(coq_chunks(c) for c in cs) + "]", coq_chunks(fin))]
        m = "(map (fun c : callres => let '(st, _, _, _) := c in st) (o_calls o%d), option_map (fun c : callres => let '(st, _, _, _) := c in st) (o_fin o%d), s_data (o_final o%d))" % (n, n, n)
        return defs, "cont_spec_finished %s %s" % (coq_nat(k), coq_nat(w)), m
    _kind, _keys, prefill, cap, script, flush, calls = f
    cs, fin = writer_calls(calls)
    fl = "FlushOk" if flush == "ok" else "(FlushFail %s)" % coq_ioerr(flush[1:])
    args = "%s %s %s %s %s" % (coq_script(script), fl, coq_bytes(prefill), "[" + "; ".join(coq_chunks(c) for c in cs) + "]", coq_chunks(fin))
    cr = "(fun c : callres => let '(st, bw, x, wa) := c in (st, bw, N.of_nat wa))"
    if cap == "-":
        defs = ["Definition o%d := Eval vm_compute in x_sink_session %s." % (n, args)]
        sink, buffered = "(o_final o%d)" % n, "[]"
    else:
        defs = ["Definition o%d := Eval vm_compute in x_buf_session %s %s." % (n, coq_nat(cap), args)]
        sink, buffered = "(b_inner (x_buf_drop (o_final o%d)))" % n, "(b_buf (o_final o%d))" % n
    m = ("(map %s (o_calls o%d), option_map %s (o_fin o%d), s_data %s, N.of_nat (s_calls %s), N.of_nat (s_flushes %s), %s, "
         "s_data (o_final (x_mem_session %s %s)), N.of_nat (s_unflushed %s))" % (cr, n, cr, n, sink, sink, sink, buffered,
                                                      "[" + "; ".join(coq_chunks(c) for c in cs) + "]", coq_chunks(fin), sink))
    return defs, None, m


def string_of_kind(k):
    named = {"IoOther": "other", "IoBrokenPipe": "brokenpipe", "IoWriteZero": "writezero", "IoInterrupted": "interrupted"}
    return named[k] if isinstance(k, str) else "k%d" % k.args[0]


def status_string(s):
    if is_app(s, "IoOk"):
        return "ok"
    if is_app(s, "IoErr", 1):
        return "err(%s)" % string_of_kind(s.args[0])
    return {"IoPanic": "panic", "IoDiverge": "diverge"}[s]


def fnv32(data, upto):
    h = 0x811c9dc5
    for b in data[:max(0, upto)]:
        h = ((h ^ b) * 16777619) & 0xffffffff
    return h


def writer_common(case, m):
    """everything both writer renderers need, from the Coq values"""
    f = case.split("\t")
    prefill = hexbytes(f[2])
    cs, fin = writer_calls(f[6])
    total = sum(len(ch) for c in cs + [fin] for ch in c)
    rcalls, rfin, data, wcalls, flushes, buffered, memdata, unfl = m
    calls_s = ",".join(status_string(st) + ":" + ("-" if i == 0 and not is_app(st, "IoOk") else "%d" % bw) for i, (st, bw, wa) in enumerate(rcalls))
    fin_s = opt(rfin, lambda c: status_string(c[0]), "none")
    common = "%s|%s|len=%d|calls=%d|fl=%d|dig=%08x|unfl=%d" % (calls_s, fin_s, len(data), wcalls, flushes, fnv32(data, len(prefill) + total), unfl)
    return prefill, rcalls, rfin, data, flushes, buffered, memdata, unfl, common


def render_c07(case, impl, s, m):
    prefill, rcalls, rfin, data, flushes, buffered, memdata, unfl, common = writer_common(case, m)
    ok = lambda st: is_app(st, "IoOk")
    if not all(ok(c[0]) for c in rcalls):
        st = "differs:call-failed"
    elif rfin == "None" or not ok(rfin.args[0][0]):
        st = "differs:finish-failed"
    elif data != prefill + memdata:
        st = "differs:bytes"
    elif flushes < 1:
        st = "differs:not-flushed"
    elif unfl > 0:
        st = "differs:written-after-the-last-flush"
    elif buffered:
        st = "differs:left-in-buffer"
    elif not all(bw == wa - len(prefill) for (_, bw, wa) in rcalls):
        st = "differs:bytes_written"
    else:
        st = "equal"
    return st, common


def render_c11(case, impl, s, m):
    if case.startswith("cont\t"):
        sts, fin, data = m
        ms = "%s|%s|len=%d|dig=%08x" % (",".join(status_string(x) for x in sts), opt(fin, status_string, "none"), len(data), fnv32(data, len(data)))
        return "finished=yes" if coq_b(s) else "finished=no", ms
    prefill, rcalls, rfin, data, flushes, buffered, memdata, unfl, common = writer_common(case, m)
    allst = [c[0] for c in rcalls] + ([] if rfin == "None" else [rfin.args[0][0]])
    fe = next(((i, st.args[0]) for i, st in enumerate(allst) if is_app(st, "IoErr", 1)), None)
    if any(isinstance(st, str) and st in ("IoPanic", "IoDiverge") for st in allst):
        st = "panic"
    elif fe:
        st = "err-io" if fe[0] == len(allst) - 1 else "continued-after-error"
    else:
        st = "finished" if data == prefill + memdata and flushes >= 1 and unfl == 0 and not buffered else "finished-incomplete"
    return st, ("fail=%d:%s" % (fe[0], string_of_kind(fe[1])) if fe else "fail=none") + "|" + common


def elig_c07(case, model):
    return not case.startswith("cont\t") and elig_writer(case, model)


# ---- c13 / c14: the byte bounds are Gallina formulas ----
def elig_c13(case, model):
    f = case.split(" ")
    return f[0] == "build" and len(f) == 9 or f[0] == "sat" and len(f) == 10


def emit_c13(n, case, impl):
    f = case.split(" ")
    fam, rows, cols = f[2], f[3], f[4]
    fan, kl = (f[6], f[7]) if f[0] == "build" else (f[7], f[8])
    return [], None, "c13_bound %d %d %d %d" % (int(rows), int(cols), int(fan), int(kl) + (0 if fam == "fix" else 1))


def elig_c14(case, model):
    f = case.split(" ")
    return f[0] == "trav" and len(f) == 5 or f[0] == "op" and len(f) == 6


def emit_c14(n, case, impl):
    f = case.split(" ")
    if f[0] == "trav":
        return [], None, "c14_stream_bound %d %d" % (int(f[3]), int(f[4]))
    return [], None, "c14_ops_bound %d %d" % (int(f[3]), int(f[5]))


def render_bound(case, impl, s, m):
    return None, "%d" % m


# ---- c17: Levenshtein ----
def utf8_scalars(h):
    return [ord(c) for c in bytes(hexbytes(h)).decode("utf-8")]


def c17_small(q, d):
    """building the DFA inside Coq takes seconds beyond this"""
    return len(utf8_scalars(q)) <= 2 and int(d) <= 2 and len(utf8_scalars(q)) + int(d) <= 3


def elig_c17(case, model):
    f = case.split(" ")
    try:
        if f[0] in ("dfa", "dfadump") and len(f) == 4:      # the whole transition table is printed: smaller still
            return c17_small(f[1], f[2]) and len(utf8_scalars(f[1])) + int(f[2]) <= 2
        if f[0] == "match" and len(f) == 4:
            bytes(hexbytes(f[3])).decode("utf-8")      # the S side decodes the key: only valid keys here
            return c17_small(f[1], f[2]) and len(f[3]) <= 12
        if f[0] == "matchall" and len(f) == 5:
            alpha = [utf8_scalars(h) for h in f[4].split(",")]
            return c17_small(f[1], f[2]) and len(utf8_scalars(f[1])) + int(f[2]) <= 2 and all(len(a) == 1 for a in alpha) and sum(len(alpha) ** l for l in range(int(f[3]) + 1)) <= 40
        if f[0] == "search" and len(f) == 5 and f[1] in ("set", "map"):
            for k in f[4].split(","):
                bytes(hexbytes(k)).decode("utf-8")
            return c17_small(f[2], f[3]) and len(f[4]) <= 120
    except (UnicodeDecodeError, ValueError):
        return False
    return False


def c17_all_keys(f):
    """all strings of at most maxlen characters over the alphabet: by length, then lexicographic in alphabet order"""
    alpha = [utf8_scalars(h)[0] for h in f[4].split(",")]
    level, out = [[]], [[]]
    for _ in range(int(f[3])):
        level = [[c] + k for c in alpha for k in level]
        out += level
    return out


def emit_c17(n, case, impl):
    f = case.split(" ")
    fail = "| Some (Err e) => Some (Err e) | Some Panic => Some Panic | None => None end)"
    if f[0] == "search":
        q, d = coq_list(utf8_scalars(f[2])), coq_nat(f[3])
        ks = "[" + "; ".join(coq_bytes(k) for k in (f[4].split(",") if f[4] != "" else [])) + "]"
        defs = ["Definition d%d := Eval vm_compute in lev_new_with_limit %s %s 10000." % (n, q, d)]
        s = "map (fun k => match utf8_decode k with Some ks => spec_match %s %s ks | None => false end) %s" % (q, d, ks)
        return defs, s, "(match d%d with Some (Ok x) => Some (Ok (map (accepts (lev_aut x)) %s)) %s" % (n, ks, fail)
    q, d = coq_list(utf8_scalars(f[1])), coq_nat(f[2])
    if f[0] == "matchall":
        # the driver runs the keys through an array copy of the DFA; here: the Gallina automaton on the UTF-8 bytes
        ks = "[" + "; ".join(coq_list(k) for k in c17_all_keys(f)) + "]"
        defs = ["Definition d%d := Eval vm_compute in lev_new_with_limit %s %s 10000." % (n, q, d)]
        s = "map (spec_match %s %s) %s" % (q, d, ks)
        return defs, s, ("(match d%d with Some (Ok x) => Some (Ok (map (fun s => (st_match s, st_next s)) x, map (fun k => accepts (lev_aut x) (utf8_bytes k)) %s)) %s"
                         % (n, ks, fail))
    lim = int(f[3]) if f[0] in ("dfa", "dfadump") else 10000
    defs = ["Definition d%d := Eval vm_compute in lev_new_with_limit %s %s %d." % (n, q, d, lim)]
    if f[0] in ("dfa", "dfadump"):
        return defs, None, "(match d%d with Some (Ok x) => Some (Ok (map (fun s => (st_match s, st_next s)) x)) | Some (Err e) => Some (Err e) | Some Panic => Some Panic | None => None end)" % n
    k = coq_bytes(f[3])
    s = "(utf8_valid %s, match utf8_decode %s with Some ks => spec_match %s %s ks | None => false end)" % (k, k, q, d)
    m = ("(match d%d with Some (Ok x) => Some (Ok (accepts (lev_aut x) %s, lev_trace x (start (lev_aut x)) %s)) | Some (Err e) => Some (Err e) | Some Panic => Some Panic | None => None end)" % (n, k, k))
    return defs, s, m


def runs_of(t):
    """maximal runs of equal entries of a 256-entry table: (lo, hi, target) for the non-None targets"""
    out, i = [], 0
    while i < len(t):
        j = i
        while j < len(t) and t[j] == t[i]:
            j += 1
        if t[i] != "None":
            out.append((i, j - 1, t[i].args[0]))
        i = j
    return out


def dump_dfa(states):
    return ";".join(("1" if coq_b(mt) else "0") + "|" + ",".join("%02x-%02x>%d" % r for r in runs_of(nx)) for (mt, nx) in states)


def fnv64(s):
    h = 0xcbf29ce484222325
    for c in s.encode("latin-1"):
        h = ((h ^ c) * 0x100000001b3) & 0xffffffffffffffff
    return "%016x" % h


def render_c17(case, impl, s, m):
    f = case.split(" ")
    if m == "None":
        raise ValueError("the model ran out of fuel")
    r = m.args[0]
    if is_app(r, "Err", 1) and is_app(r.args[0], "ETooManyStates", 1):
        return "toomany", "TooManyStates(%d)" % r.args[0].args[0]
    if not is_app(r, "Ok", 1):
        return "PANIC", "PANIC"
    if f[0] in ("dfa", "dfadump"):
        d = dump_dfa(r.args[0])
        return "built", (d if f[0] == "dfadump" else "n=%d fnv=%s" % (len(r.args[0]), fnv64(d)))
    if f[0] == "matchall":
        bits = lambda l: "".join("1" if coq_b(b) else "0" for b in l)
        states, acc = r.args[0]
        return bits(s), "n=%d fnv=%s;%s" % (len(states), fnv64(dump_dfa(states)), bits(acc))
    if f[0] == "search":
        keys = f[4].split(",") if f[4] != "" else []
        show = lambda sel: ",".join((k + "=%d" % i if f[1] == "map" else k) for i, (k, b) in enumerate(zip(keys, sel)) if coq_b(b))
        return show(s), show(r.args[0])
    acc, tr = r.args[0]
    valid, sm = s
    return ("invalid" if not coq_b(valid) else "1" if coq_b(sm) else "0",
            "v=%d;%s" % (1 if coq_b(acc) else 0, ",".join(opt(o, str, "-") for o in tr)))


# ----------------------------------------------------------------------------------------------
Kind = namedtuple("Kind", "name imports eligible emit render family", defaults=(None,))


def word(w, maxlen=400):
    return lambda case, model: case.startswith(w + " ") and len(case) <= maxlen


KINDS = {k.name: k for k in [
    Kind("build", CORE, lambda c, m: c.startswith("build ") and elig_build(c, m), emit_build, render_build,
         lambda c: " ".join(c.split(" ")[1:3])),   # semantics x front end
    Kind("fmt", CORE, lambda c, m: c.startswith("fmt ") and elig_fmt(c, m), emit_fmt, render_fmt),
    Kind("get", CORE, word("get", 3000), emit_get, render_get),
    Kind("range", CORE, word("range", 1100), emit_range, render_range),
    Kind("getkey", CORE, word("getkey", 2000), emit_getkey, render_getkey),
    Kind("search", CORE, word("search", 1000), emit_search, render_search,
         lambda c: " ".join(sections(c)[1].split()[:1] + [sections(c)[2].strip()])),          # head of the expression x ws/nows
    Kind("old", CORE, word("old", 4000), emit_old, render_old),
    Kind("openclass", CORE, word("openclass"), emit_openclass, render_openclass),
    Kind("c05", ["Base", "Ops"], elig_c05, emit_c05, render_c05),
    Kind("c08", OPEN, elig_c08, emit_c08, render_c08),
    Kind("c20", OPEN, elig_c20, emit_c20, render_c20),
    Kind("c18", ["Base", "Automaton"], elig_c18, emit_c18, render_c18),
    Kind("c19", ["Base", "Merge"], elig_c19, emit_c19, render_c19),
    Kind("c07", ["Base", "Writer"], elig_c07, emit_writer, render_c07),
    Kind("c11", ["Base", "Writer"], elig_writer, emit_writer, render_c11),
    Kind("c13", ["Base", "Mem"], elig_c13, emit_c13, render_bound),
    Kind("c14", ["Base", "Mem"], elig_c14, emit_c14, render_bound),
    Kind("c17", ["Base", "Automaton", "Levenshtein"], elig_c17, emit_c17, render_c17),
]}


def fields(line):
    d = {}
    for f in line.rstrip("\n").split("\t"):
        if ":" in f:
            k, v = f.split(":", 1)
            d[k] = v
    return d


def subkind(case):
    """the family of a case inside its kind (first word), so that a sample does not consist of one family only"""
    return re.split(r"[ \t]", case, 1)[0]


def read_run(run_dir, budget_bytes=30 << 20):
    """(index, case, model line, implementation line) of the run; very large runs are read with a stride"""
    cp = os.path.join(run_dir, "cases.txt")
    stride = 1 + os.path.getsize(cp) // budget_bytes
    with open(cp, errors="replace") as fc, open(os.path.join(run_dir, "model.out"), errors="replace") as fm, \
            open(os.path.join(run_dir, "impl.out"), errors="replace") as fi:
        for i, (c, m, il) in enumerate(zip(fc, fm, fi)):
            if i % stride == 0:
                yield i, c.rstrip("\n"), m.rstrip("\n"), il.rstrip("\n")


def pick(kinds, rows, total):
    """which cases are re-evaluated: the quota is shared evenly between the kinds and, inside a kind, between the
    families (Kind.family, by default the first word of the case line); duplicates are taken once.
    Returns [(kind, (index, case, model line, implementation line))]."""
    fams = [{} for _ in kinds]
    for row in rows:
        i, c, m, il = row
        if not c or "S:" not in m or m.startswith("EXN:"):
            continue
        for kd, fam in zip(kinds, fams):
            try:
                if kd.eligible(c, m):
                    fam.setdefault((kd.family or subkind)(c), []).append(row)
            except (ValueError, IndexError):
                pass
    chosen = []
    per_kind = max(1, total // max(1, len(kinds)))
    for kd, fam in zip(kinds, fams):
        if not fam:
            continue
        quota = max(1, -(-per_kind // len(fam)))
        for name in sorted(fam):
            seen, order = set(), []
            for row in sorted(fam[name], key=lambda r: (len(r[1]), r[0])):
                if row[1] not in seen:
                    seen.add(row[1]); order.append(row)
            # a quarter of the quota: the very shortest (degenerate inputs); the rest: evenly spaced over the
            # eligible cases in order of length (eligibility bounds the length), so that real inputs are reached
            head = order[:max(1, quota // 4)]
            rest = order[len(head):]
            k = quota - len(head)
            spaced = [rest[(j * len(rest)) // k] for j in range(k)] if len(rest) > k > 0 else rest
            chosen += [(kd, row) for row in head + spaced]
    return chosen


def run(pid, cfg, run_dir, log=None, keep=False):
    """Returns the `extraction_crosscheck` entry of the evidence file, or None when the property has none."""
    names = cfg.get("coq_crosscheck")
    if not names:
        return None
    t0 = time.time()
    if isinstance(names, str):
        names = [names]
    kinds = [KINDS[k] for k in names]
    chosen = pick(kinds, read_run(run_dir), cfg.get("coq_crosscheck_n", 40))
    if not chosen:
        return {"cases": 0, "mismatches": 0, "kinds": {}, "detail": "no eligible case"}
    nshards = max(1, min(cfg.get("coq_crosscheck_shards", 8), len(chosen)))
    d = os.path.join(COQ, "cases")
    os.makedirs(d, exist_ok=True)
    shards = [[] for _ in range(nshards)]
    plan = []          # (kind, (index, case, model line, implementation line), translation error or None), position = n
    for n, (kd, row) in enumerate(chosen):
        try:
            defs, s, m = kd.emit(n, row[1], row[3])
        except Exception as ex:       # a case line this translator cannot read is a finding about the translator
            plan.append((kd, row, "untranslatable: %r" % (ex,)))
            continue
        plan.append((kd, row, None))
        shards[n % nshards] += defs + ["Eval vm_compute in (%d, %s, %s)." % (n, s or "0", m or "0")]
    procs = []
    for j, body in enumerate(shards):
        mods = []
        for kd in kinds:
            for mname in kd.imports:
                if mname not in mods:
                    mods.append(mname)
        vf = os.path.join(d, "Cross_%s_%d.v" % (pid, j))
        open(vf, "w").write("Require Import %s.\nOpen Scope N_scope.\n\n" % " ".join("FstV." + x for x in mods) + "\n".join(body) + "\n")
        procs.append((vf, subprocess.Popen(["coqc", "-q", "-noglob", "-Q", COQ, "FstV", vf], cwd=COQ, stdout=subprocess.PIPE,
                                           stderr=subprocess.STDOUT, text=True, errors="replace")))
    got, failed = {}, []
    for vf, p in procs:
        try:
            out, _ = p.communicate(timeout=cfg.get("coq_crosscheck_timeout", 600))
        except subprocess.TimeoutExpired:
            p.kill(); out = "timeout"
        if p.returncode != 0:
            failed.append("%s: rc=%s %s" % (os.path.basename(vf), p.returncode, " ".join(out[-300:].split())))
        for v in parse_evals(out):
            if isinstance(v, tuple) and len(v) == 3 and isinstance(v[0], int):
                got[v[0]] = v
            else:
                failed.append("unreadable answer: %r" % (v,))
        if not keep:
            for ext in (".v", ".vo", ".vok", ".vos", ".glob"):
                try:
                    os.remove(vf[:-2] + ext)
                except OSError:
                    pass
            try:
                os.remove(os.path.join(d, "." + os.path.basename(vf)[:-2] + ".aux"))
            except OSError:
                pass
    bad, per_kind, per_fam, s_cmp, m_cmp = [], {}, {}, 0, 0
    for n, (kd, (i, case, mline, iline), err) in enumerate(plan):
        per_kind[kd.name] = per_kind.get(kd.name, 0) + 1
        fam = per_fam.setdefault(kd.name, {})
        fname = (kd.family or subkind)(case)
        fam[fname] = fam.get(fname, 0) + 1
        want = fields(mline)
        if err:
            bad.append({"case": case[:300], "kind": kd.name, "why": err}); continue
        if n not in got:
            bad.append({"case": case[:300], "kind": kd.name, "why": "no answer from Coq"}); continue
        try:
            st, mt = kd.render(case, iline, got[n][1], got[n][2])
        except Exception as ex:
            bad.append({"case": case[:300], "kind": kd.name, "why": "cannot render Coq's answer: %r" % (ex,)}); continue
        for fld, txt in (("S", st), ("M", mt)):
            if txt is None:
                continue
            if fld == "S":
                s_cmp += 1
            else:
                m_cmp += 1
            if want.get(fld) != txt:
                bad.append({"case": case[:300], "kind": kd.name, "field": fld, "coq": txt[:300], "ocaml": (want.get(fld) or "")[:300]})
    if log and (bad or failed):
        log.write("crosscheck: %d disagreements, coqc: %s\n%r\n" % (len(bad), failed[:5], bad[:5]))
    mism = len(bad) + (1 if failed and not bad else 0)
    full = {b["case"]: None for b in bad}
    bad_cases = [case for (kd, (i, case, ml, il), err) in plan if case[:300] in full][:10]
    return {"cases": len(plan), "mismatches": mism, "kinds": per_kind, "families": per_fam, "S_fields_compared": s_cmp, "M_fields_compared": m_cmp,
            "seconds": round(time.time() - t0, 1),
            "detail": "vm_compute inside Coq (tools/crosscheck.py: case line -> Coq term -> text) vs the S and M fields printed by the extracted OCaml model"
                      + ("; coqc: " + "; ".join(failed[:3]) if failed else ""),
            "bad": bad[:3], "bad_cases": sorted(set(bad_cases), key=len)}


if __name__ == "__main__":
    sys.path.insert(0, os.path.join(ROOT, "tools"))
    from props import PROPS
    pid, rdir = sys.argv[1], sys.argv[2]
    cfg = dict(PROPS[pid])
    if len(sys.argv) > 3:
        cfg["coq_crosscheck"] = sys.argv[3].split(",")
    if len(sys.argv) > 4:
        cfg["coq_crosscheck_n"] = int(sys.argv[4])
    import json
    print(json.dumps(run(pid, cfg, rdir, sys.stderr, keep=bool(os.environ.get("KEEP"))), indent=1))
