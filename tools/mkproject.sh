#!/bin/sh
# regenerate coq/_CoqProject and coq/Makefile from the files on disk
cd "$(dirname "$0")/../coq" || exit 1
{ echo "-Q . FstV"; find . -name '*.v' ! -path './cases/*' | sed 's|^\./||' | sort; } > _CoqProject.new
if ! cmp -s _CoqProject.new _CoqProject 2>/dev/null; then mv _CoqProject.new _CoqProject; coq_makefile -f _CoqProject -o Makefile >/dev/null; else rm _CoqProject.new; [ -f Makefile ] || coq_makefile -f _CoqProject -o Makefile >/dev/null; fi
