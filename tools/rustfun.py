#!/usr/bin/env python3
"""rustfun.py <repo> <coq/Generated/SrcFuns.v> [--pin] [--pinned-for f,g,...]

Translator for small pure "leaf" functions of the source: regenerates, on every run, Gallina
definitions `src_fn_<Type>_<name>` from the Rust text found in <repo>; coq/SrcFunTie.v proves, for
ALL inputs, that each equals the corresponding function (or expression) of the hand-written model.

Accepted subset of Rust (tools/rustfun_parse.py, tools/rustfun_tr.py): free functions and methods
(`&self`, `&mut self`, `self`) of newtype structs over an integer and of structs with integer fields;
`let [mut] x [: T] = e;`, assignments and compound assignments to locals and `self.0`, `if / else if /
else` as statement and as expression, `if let Some(x) = e {..} else {..}`, `match` on integers
(literals, ranges, `|`, `_`) and on options, early `return`, `assert!/debug_assert!/panic!/
unreachable!`, comparison operators, `&& || !`, `+ - * / % << >> & | ^`, `as T`, literals (0b, 0x,
`_`, suffix, b'c'), `cmp::min/max`, `.min/.max`, `.wrapping_add/sub/mul`, `.wrapping_shl/shr`,
`.rotate_left/right` (constant amount), `.checked_add/sub/mul` with `.unwrap()/.expect(..)`,
`.saturating_sub`, `.leading_zeros()`, `T::from(e)`, `Some/None`, `.is_none()/.is_some()/
.unwrap_or(c)`, integer consts of the same file or of src/raw/mod.rs (inlined),
`COMMON_INPUTS[..]`/`COMMON_INPUTS_INV[..]` (the tables of Generated/SrcParams.v), calls of other
functions of the subset (translated on demand), `data.len()` of a slice parameter (the parameter
becomes its length), the fields version/start/end/ntrans/sizes/is_final of a `&Node` parameter.
A statement outside the subset only matters when the translation reaches it.

Semantics: every value is an N with its Rust type and an interval; the harness build decides the
arithmetic (harness/Cargo.toml [profile.release]: overflow-checks, debug-assertions).  With overflow
checks ON (the case today) `+ - *` that may leave the type, `/ %` by a possible zero and shifts by a
possible >= bit width PANIC; with checks off they wrap modulo 2^bits.  `usize` and `u64` are 64 bit.
`as` to a narrower type truncates (mod 2^bits), `<<` drops the bits shifted out.  A function in which no
panic is possible stays plain N / bool / option N, otherwise it returns `res _` (Base.v).
"""
import json, os, re, sys

HERE = os.path.dirname(os.path.abspath(__file__))
sys.path.insert(0, HERE)
from rustfun_parse import FileIndex, Untranslatable  # noqa: E402
from rustfun_tr import Translator  # noqa: E402

FILES = ["src/bytes.rs", "src/raw/mod.rs", "src/raw/crc32.rs", "src/raw/node.rs", "src/automaton/mod.rs", "src/raw/ops.rs", "src/automaton/levenshtein.rs"]
PINNED_PATH = os.path.join(HERE, "srcfuns_pinned.v")
LAST_DECLS = {}
LAST_SIGS = {}
LAST_RESTRUCT = {}

ANY_POS = [("start", "node.start", "usize"), ("v", "self.0", "u8"), ("sizes", "node.sizes", "PackSizes"),
           ("ntrans", "node.ntrans", "usize"), ("version", "node.version", "u64")]
ONE_POS = [("start", "node.start", "usize"), ("v", "self.0", "u8"), ("sizes", "node.sizes", "PackSizes")]

FST_NEW = [("len", "bytes.len()", "usize"), ("version", "version", "u64"), ("root_addr", "root_addr", "usize")]

# (coq name, file, owner, fn, mode, declared parameters or None, result is an option, declared result type)
TARGETS = [
    ("src_fn_pack_size", "src/bytes.rs", None, "pack_size", ("fn",), None, False, None),
    ("src_fn_unpack_uint", "src/bytes.rs", None, "unpack_uint", ("fn",), None, False, None),
    ("src_fn_pack_uint_in_bytes", "src/bytes.rs", None, "pack_uint_in", ("arg", "write_all"), None, False, ("bytes",)),
    ("src_fn_Bound_exceeded_by", "src/raw/mod.rs", "Bound", "exceeded_by", ("fn",), None, False, None),
    ("src_fn_Bound_is_empty", "src/raw/mod.rs", "Bound", "is_empty", ("fn",), None, False, None),
    ("src_fn_Bound_is_inclusive", "src/raw/mod.rs", "Bound", "is_inclusive", ("fn",), None, False, None),
] + [
    ("src_fn_%s_%s" % (o, f), "src/raw/mod.rs", o, f, ("selfpair", ["min", "max"]), None, False, None)
    for o in ("StreamBuilder", "StreamWithStateBuilder") for f in ("ge", "gt", "le", "lt")
] + [
    ("src_fn_Output_prefix", "src/raw/mod.rs", "Output", "prefix", ("fn",), None, False, None),
    ("src_fn_Output_cat", "src/raw/mod.rs", "Output", "cat", ("fn",), None, False, None),
    ("src_fn_Output_sub", "src/raw/mod.rs", "Output", "sub", ("fn",), None, False, None),
    ("src_fn_CheckSummer_masked", "src/raw/crc32.rs", "CheckSummer", "masked", ("fn",), None, False, None),
    ("src_fn_crc32c_slice16", "src/raw/crc32.rs", None, "crc32c_slice16", ("fn",), None, False, None),
    ("src_fn_CheckSummer_new", "src/raw/crc32.rs", "CheckSummer", "new", ("fn",), None, False, None),
    ("src_fn_CheckSummer_update", "src/raw/crc32.rs", "CheckSummer", "update", ("fn",), None, False, None),
    ("src_fn_common_idx", "src/raw/node.rs", None, "common_idx", ("fn",), None, False, None),
    ("src_fn_common_input", "src/raw/node.rs", None, "common_input", ("fn",), None, False, None),
    ("src_fn_PackSizes_new", "src/raw/node.rs", "PackSizes", "new", ("fn",), None, False, None),
    ("src_fn_PackSizes_decode", "src/raw/node.rs", "PackSizes", "decode", ("fn",), None, False, None),
    ("src_fn_PackSizes_encode", "src/raw/node.rs", "PackSizes", "encode", ("fn",), None, False, None),
    ("src_fn_PackSizes_set_transition_pack_size", "src/raw/node.rs", "PackSizes", "set_transition_pack_size", ("fn",), None, False, None),
    ("src_fn_PackSizes_transition_pack_size", "src/raw/node.rs", "PackSizes", "transition_pack_size", ("fn",), None, False, None),
    ("src_fn_PackSizes_set_output_pack_size", "src/raw/node.rs", "PackSizes", "set_output_pack_size", ("fn",), None, False, None),
    ("src_fn_PackSizes_output_pack_size", "src/raw/node.rs", "PackSizes", "output_pack_size", ("fn",), None, False, None),
    ("src_fn_State_new_tag", "src/raw/node.rs", "State", "new", ("after", "v"), [("v", "v", "u8")], False, "tag"),
    ("src_fn_StateOneTransNext_new", "src/raw/node.rs", "StateOneTransNext", "new", ("fn",), None, False, None),
    ("src_fn_StateOneTransNext_set_common_input", "src/raw/node.rs", "StateOneTransNext", "set_common_input", ("fn",), None, False, None),
    ("src_fn_StateOneTransNext_common_input", "src/raw/node.rs", "StateOneTransNext", "common_input", ("fn",), None, False, None),
    ("src_fn_StateOneTransNext_input_len", "src/raw/node.rs", "StateOneTransNext", "input_len", ("fn",), None, False, None),
    ("src_fn_StateOneTrans_new", "src/raw/node.rs", "StateOneTrans", "new", ("fn",), None, False, None),
    ("src_fn_StateOneTrans_set_common_input", "src/raw/node.rs", "StateOneTrans", "set_common_input", ("fn",), None, False, None),
    ("src_fn_StateOneTrans_common_input", "src/raw/node.rs", "StateOneTrans", "common_input", ("fn",), None, False, None),
    ("src_fn_StateOneTrans_input_len", "src/raw/node.rs", "StateOneTrans", "input_len", ("fn",), None, False, None),
    ("src_fn_StateAnyTrans_new", "src/raw/node.rs", "StateAnyTrans", "new", ("fn",), None, False, None),
    ("src_fn_StateAnyTrans_set_final_state", "src/raw/node.rs", "StateAnyTrans", "set_final_state", ("fn",), None, False, None),
    ("src_fn_StateAnyTrans_is_final_state", "src/raw/node.rs", "StateAnyTrans", "is_final_state", ("fn",), None, False, None),
    ("src_fn_StateAnyTrans_set_state_ntrans", "src/raw/node.rs", "StateAnyTrans", "set_state_ntrans", ("fn",), None, False, None),
    ("src_fn_StateAnyTrans_state_ntrans", "src/raw/node.rs", "StateAnyTrans", "state_ntrans", ("fn",), None, False, None),
    ("src_fn_StateAnyTrans_ntrans_len", "src/raw/node.rs", "StateAnyTrans", "ntrans_len", ("fn",), None, False, None),
    ("src_fn_StateAnyTrans_trans_index_size", "src/raw/node.rs", "StateAnyTrans", "trans_index_size", ("fn",), None, False, None),
    ("src_fn_StateAnyTrans_total_trans_size", "src/raw/node.rs", "StateAnyTrans", "total_trans_size", ("fn",), None, False, None),
    # index arithmetic up to, not including, the slice read
    ("src_fn_StateOneTransNext_end_addr", "src/raw/node.rs", "StateOneTransNext", "end_addr", ("fn",),
     [("v", "self.0", "u8"), ("data_len", "data.len()", "usize")], False, None),
    ("src_fn_StateOneTransNext_trans_addr", "src/raw/node.rs", "StateOneTransNext", "trans_addr", ("fn",),
     [("v", "self.0", "u8"), ("end_", "node.end", "usize")], False, None),
    ("src_fn_StateOneTrans_sizes_at", "src/raw/node.rs", "StateOneTrans", "sizes", ("let", "i"),
     [("v", "self.0", "u8"), ("data_len", "data.len()", "usize")], False, "usize"),
    ("src_fn_StateOneTrans_end_addr", "src/raw/node.rs", "StateOneTrans", "end_addr", ("fn",),
     [("v", "self.0", "u8"), ("data_len", "data.len()", "usize"), ("sizes", "sizes", "PackSizes")], False, None),
    ("src_fn_StateOneTrans_output_at", "src/raw/node.rs", "StateOneTrans", "output", ("let", "i"), ONE_POS, True, "usize"),
    ("src_fn_StateOneTrans_trans_addr_at", "src/raw/node.rs", "StateOneTrans", "trans_addr", ("let", "i"), ONE_POS, False, "usize"),
    ("src_fn_StateAnyTrans_sizes_at", "src/raw/node.rs", "StateAnyTrans", "sizes", ("let", "i"),
     [("v", "self.0", "u8"), ("data_len", "data.len()", "usize")], False, "usize"),
    ("src_fn_StateAnyTrans_ntrans_at", "src/raw/node.rs", "StateAnyTrans", "ntrans", ("index", "data"),
     [("v", "self.0", "u8"), ("data_len", "data.len()", "usize")], False, "usize"),
    ("src_fn_StateAnyTrans_final_output_at", "src/raw/node.rs", "StateAnyTrans", "final_output", ("let", "at"),
     [("v", "self.0", "u8"), ("version", "version", "u64"), ("data_len", "data.len()", "usize"), ("sizes", "sizes", "PackSizes"), ("ntrans", "ntrans", "usize")], True, "usize"),
    ("src_fn_StateAnyTrans_end_addr", "src/raw/node.rs", "StateAnyTrans", "end_addr", ("fn",),
     [("v", "self.0", "u8"), ("version", "version", "u64"), ("data_len", "data.len()", "usize"), ("sizes", "sizes", "PackSizes"), ("ntrans", "ntrans", "usize")], False, None),
    ("src_fn_StateAnyTrans_trans_addr_at", "src/raw/node.rs", "StateAnyTrans", "trans_addr", ("let", "at"), ANY_POS + [("i", "i", "usize")], False, "usize"),
    ("src_fn_StateAnyTrans_input_at", "src/raw/node.rs", "StateAnyTrans", "input", ("let", "at"), ANY_POS + [("i", "i", "usize")], False, "usize"),
    ("src_fn_StateAnyTrans_find_input_start", "src/raw/node.rs", "StateAnyTrans", "find_input", ("let", "start"), ANY_POS, False, "usize"),
    ("src_fn_StateAnyTrans_output_at", "src/raw/node.rs", "StateAnyTrans", "output", ("let", "at"), ANY_POS + [("i", "i", "usize")], True, "usize"),
] + [
    ("src_fn_%s_%s" % (o, f), "src/automaton/mod.rs", o, f, ("fn",), None, False, None)
    for o, fs in (("Str", "start is_match can_match accept"), ("Subsequence", "start is_match can_match will_always_match accept"),
                  ("AlwaysMatch", "start is_match can_match will_always_match accept"),
                  ("StartsWith", "start is_match can_match will_always_match accept"),
                  ("Union", "start is_match can_match will_always_match accept"),
                  ("Intersection", "start is_match can_match will_always_match accept"),
                  ("Complement", "start is_match can_match will_always_match accept"),
                  ("Ref", "start is_match can_match will_always_match accept"))
    for f in fs.split()
] + [
    ("src_fn_DynamicLevenshtein_start", "src/automaton/levenshtein.rs", "DynamicLevenshtein", "start", ("fn",), None, False, None),
    ("src_fn_DynamicLevenshtein_is_match", "src/automaton/levenshtein.rs", "DynamicLevenshtein", "is_match", ("fn",), None, False, None),
    ("src_fn_DynamicLevenshtein_can_match", "src/automaton/levenshtein.rs", "DynamicLevenshtein", "can_match", ("fn",), None, False, None),
    ("src_fn_DynamicLevenshtein_accept", "src/automaton/levenshtein.rs", "DynamicLevenshtein", "accept", ("fn",), None, False, None),
    ("src_fn_Slot_partial_cmp", "src/raw/ops.rs", "Slot", "partial_cmp", ("fn",), None, False, None),
    ("src_fn_Slot_cmp", "src/raw/ops.rs", "Slot", "cmp", ("fn",), None, False, None),
    # Fst::new: the conditions of its four rejecting `if`s
    ("src_fn_Fst_new_too_short", "src/raw/mod.rs", "Fst", "new", ("cond", 1), FST_NEW, False, "bool"),
    ("src_fn_Fst_new_bad_version", "src/raw/mod.rs", "Fst", "new", ("cond", 2), FST_NEW, False, "bool"),
    ("src_fn_Fst_new_too_short_v3", "src/raw/mod.rs", "Fst", "new", ("cond", 3), FST_NEW, False, "bool"),
    ("src_fn_Fst_new_bad_root", "src/raw/mod.rs", "Fst", "new", ("cond", 4), FST_NEW, False, "bool"),
]


def harness_profile(root):
    """overflow-checks / debug-assertions of the release profile the harness is built with"""
    ovf, dbg = False, False          # cargo's defaults for the release profile
    try:
        t = open(os.path.join(root, "harness", "Cargo.toml")).read()
        m = re.search(r"\[profile\.release\](.*?)(?:\n\[|\Z)", t, re.S)
        if m:
            o = re.search(r"^\s*overflow-checks\s*=\s*(true|false)", m.group(1), re.M)
            d = re.search(r"^\s*debug-assertions\s*=\s*(true|false)", m.group(1), re.M)
            ovf = bool(o and o.group(1) == "true")
            dbg = bool(d and d.group(1) == "true")
    except OSError:
        pass
    return ovf, dbg


def split_pinned(txt):
    """pinned file -> {coq name: (type text, definition text)} in file order"""
    out, order = {}, []
    for m in re.finditer(r"^Definition (src_fn_\w+)([^\n]*?) : ([^\n]*?) :=\n(.*?\.)\n(?=\n|\Z|Definition )", txt, re.S | re.M):
        out[m.group(1)] = (m.group(3), m.group(0).rstrip("\n"))
        order.append(m.group(1))
    return out, order


def split_pinned_decls(txt):
    """pinned file -> {inductive name: declaration text}"""
    return {m.group(1): m.group(0).rstrip("\n") for m in re.finditer(r"^Inductive (src_\w+)[^\n]*\n(?:  \|[^\n]*\n?)+", txt, re.M)}


ALL_SRC = {}


def locate(repo, files, tr, owner, fn):
    """an item that is not in its pinned file any more: if exactly one file under src/ defines it, take it from there"""
    if not ALL_SRC.get(repo):
        d = {}
        for dp, _, fs in os.walk(os.path.join(repo, "src")):
            for f in fs:
                if f.endswith(".rs"):
                    rel = os.path.relpath(os.path.join(dp, f), repo)
                    if rel in files:
                        d[rel] = files[rel]
                        continue
                    try:
                        d[rel] = FileIndex(open(os.path.join(dp, f), errors="replace").read())
                    except Exception:
                        pass
        ALL_SRC.clear()
        ALL_SRC[repo] = d
    hits = [(rel, ix) for rel, ix in ALL_SRC[repo].items() if (owner, fn) in ix.fns]
    if len(hits) != 1:
        return None, None
    rel, ix = hits[0]
    if rel not in tr.files:
        tr.files[rel] = ix
    return ix, ix.fns[(owner, fn)]


def struct_sigs(files):
    """field names and types of the structs whose methods are translated: a changed representation of the private
    state makes its methods AND the helpers they call not comparable function by function"""
    owners = sorted(set(t[2] for t in TARGETS if t[2]))
    out = {}
    for o in owners:
        for f, ix in files.items():
            if o in ix.records:
                out[o] = "{" + ", ".join("%s: %s" % (k, " ".join(str(x[1]) if x[0] != "num" else str(x[1][0]) for x in v)) for k, v in ix.records[o].items()) + "}"
                break
            if o in ix.tuples:
                out[o] = "(" + ", ".join(" ".join(str(x[1]) for x in ft) for ft in ix.tuples[o][1]) + ")"
                break
            if o in ix.enums:
                out[o] = "enum " + " | ".join(v[0] for v in ix.enums[o][1])
                break
    return out


def pinned_struct_sigs(txt):
    return dict(re.findall(r"^\(\* STRUCT (\w+) = (.*?) \*\)$", txt, re.M))


def deps_of(text, names):
    body = text.split(":=", 1)[1]
    return [n for n in names if re.search(r"\b%s\b" % re.escape(n), body)]


def generate(repo, root, use_pinned_for=(), pin=False):
    ovf, dbg = harness_profile(root)
    files = {}
    detail = {}
    for f in FILES:
        try:
            files[f] = FileIndex(open(os.path.join(repo, f), errors="replace").read())
        except (OSError, Untranslatable, RecursionError, KeyError, IndexError, TypeError, ValueError, AttributeError) as ex:
            detail[f] = "cannot read/tokenize: %s" % ex
    pinned, porder = ({}, []) if pin or not os.path.exists(PINNED_PATH) else split_pinned(open(PINNED_PATH).read())
    forced = {n: True for n, (ty, _) in pinned.items() if ty.startswith("res ")}
    tr = Translator(files, ovf=ovf, dbg=dbg, forced_res=forced,
                    tables={"COMMON_INPUTS": ("src_COMMON_INPUTS", 256), "COMMON_INPUTS_INV": ("src_COMMON_INPUTS_INV", 256)})
    for coqname, f, owner, fn, mode, pdecl, opt, rdecl in TARGETS:
        tr.reserved[coqname] = (owner, fn) if (mode == ("fn",) and pdecl is None) else ("%derived", coqname)
    texts, types, status = {}, {}, {}
    for coqname, f, owner, fn, mode, pdecl, opt, rdecl in TARGETS:
        if coqname in use_pinned_for:
            status[coqname] = "fallback_to_pinned: " + use_pinned_for[coqname]
            continue
        try:
            if f not in files:
                fix0, item0 = locate(repo, files, tr, owner, fn)
                if item0 is None:
                    raise Untranslatable(detail.get(f, "file missing"))
                files[f] = fix0
            ix = files[f]
            if mode == ("fn",) and pdecl is None:
                if tr.find_fn(ix, owner, fn)[1] is None:
                    fix2, item2 = locate(repo, files, tr, owner, fn)
                    if item2 is not None:
                        ix = fix2
                info = tr.get_fn(ix, owner, fn)
                if info.coqname != coqname:
                    raise Untranslatable("name clash %s / %s" % (info.coqname, coqname))
            else:
                fix, item = tr.find_fn(ix, owner, fn)
                if item is None:
                    fix, item = locate(repo, files, tr, owner, fn)
                if item is None:
                    raise Untranslatable("function %s::%s not found" % (owner, fn))
                info = tr.translate_fn(fix, item, coqname, mode, pdecl, opt, rdecl)
            texts[coqname] = info.text
            types[coqname] = info.coq_rtype()
            status[coqname] = "translated"
        except Untranslatable as ex:
            status[coqname] = "fallback_to_pinned: %s" % ex
        except (RecursionError, KeyError, IndexError, TypeError, ValueError, AttributeError, AssertionError) as ex:
            # a defect of the translator on code it was not written for must not become an alarm
            status[coqname] = "fallback_to_pinned: translator error %s: %s" % (type(ex).__name__, ex)
    # functions pulled in as dependencies (helpers called by the targets)
    for key, info in tr.memo.items():
        if not isinstance(info, Exception) and info.coqname not in texts and info.coqname not in use_pinned_for:
            texts[info.coqname] = info.text
            types[info.coqname] = info.coq_rtype()
            status.setdefault(info.coqname, "translated (helper)")
    # every name of the pinned revision is always defined: current translation or pinned text
    for n in porder:
        if n not in texts:
            texts[n] = pinned[n][1]
            types[n] = pinned[n][0]
            status[n] = status.get(n, "fallback_to_pinned: not reached in the current source")
            if not status[n].startswith("fallback"):
                status[n] = "fallback_to_pinned: " + status[n]
    # structs whose fields changed: their methods and everything those call fall back together
    csigs = struct_sigs(files)
    psigs = {} if pin or not os.path.exists(PINNED_PATH) else pinned_struct_sigs(open(PINNED_PATH).read())
    restruct = {}
    for o, sg in psigs.items():
        if o in csigs and csigs[o] != sg:
            cluster = set(n for n in texts if n.startswith("src_fn_%s_" % o))
            todo = list(cluster)
            while todo:
                n = todo.pop()
                for d in deps_of(texts[n], list(texts)):
                    if d not in cluster:
                        cluster.add(d)
                        todo.append(d)
            for n in sorted(cluster):
                if n in pinned and texts[n].strip() != pinned[n][1].strip():
                    texts[n], types[n] = pinned[n][1], pinned[n][0]
                    status[n] = "fallback_to_pinned: the fields of struct %s changed (%s -> %s): its methods and their helpers are not comparable one by one" % (o, sg, csigs[o])
                    restruct.setdefault(o, []).append(n)
    global LAST_SIGS, LAST_RESTRUCT
    LAST_SIGS, LAST_RESTRUCT = csigs, restruct
    # enums: the declarations of the pinned revision are always present; when the source's enum differs from the
    # pinned one, every function that mentions it falls back (pinned and current constructors cannot be mixed)
    pdecls = {} if pin or not os.path.exists(PINNED_PATH) else split_pinned_decls(open(PINNED_PATH).read())
    cdecls = {}
    for d in tr.enum_decls():
        cdecls[re.match(r"Inductive (src_\w+)", d).group(1)] = d
    decls = dict(cdecls)
    for dn, dt in pdecls.items():
        if dn in cdecls and cdecls[dn].strip() != dt.strip():
            for n in list(texts):
                if re.search(r"\b%s\b" % dn, texts[n]):
                    if n in pinned:
                        texts[n], types[n] = pinned[n][1], pinned[n][0]
                        status[n] = "fallback_to_pinned: the enum %s of the source differs from the pinned one" % dn[4:]
                    else:
                        del texts[n]
                        status.pop(n, None)
        decls[dn] = dt if (dn not in cdecls or cdecls[dn].strip() != dt.strip()) else cdecls[dn]
    # a kept function must not refer to a dropped helper
    changed_ = True
    while changed_:
        changed_ = False
        for n in list(texts):
            for ref in set(re.findall(r"\bsrc_fn_\w+", texts[n].split(":=", 1)[1])):
                if ref not in texts and ref not in pinned:
                    if n in pinned and texts[n] != pinned[n][1]:
                        texts[n], types[n] = pinned[n][1], pinned[n][0]
                        status[n] = "fallback_to_pinned: calls %s, which is not available" % ref
                    else:
                        del texts[n]
                        status.pop(n, None)
                    changed_ = True
                    break
    missing = [n for n in status if status[n].startswith("fallback") and n not in texts]
    if missing:
        raise SystemExit("rustfun: no translation and no pinned text for: " + "; ".join("%s (%s)" % (n, status[n]) for n in missing))
    # dependency order
    names = list(texts)
    order, seen = [], set()

    def visit(n, stack=()):
        if n in seen:
            return
        if n in stack:
            raise SystemExit("rustfun: cyclic definitions through " + n)
        for d in deps_of(texts[n], names):
            if d != n:
                visit(d, stack + (n,))
        seen.add(n)
        order.append(n)
    pref = [t[0] for t in TARGETS]
    for n in sorted(names, key=lambda x: (pref.index(x) if x in pref else -1, x)):
        visit(n)
    head = ["(* GENERATED by tools/rustfun.py from the current sources of /repo — do not edit.",
            "   Arithmetic follows the release profile of harness/Cargo.toml: overflow-checks = %s, debug-assertions = %s;" % (
                "true" if ovf else "false", "true" if dbg else "false"),
            "   " + ("`+ - *` that can leave their type, division by a possible zero and over-long shifts return Panic;" if ovf
                     else "`+ - *` wrap modulo 2^bits of the operand type;"),
            "   usize and u64 are 64 bit; `as` to a narrower type truncates; results that cannot panic are plain N / bool / option N. *)",
            "From Coq Require Import NArith List Bool.", "Require Import FstV.Base FstV.SrcFunBase FstV.Generated.SrcParams.", "Open Scope N_scope.", "",
            "(* ranges, enumerate, option equality and the record of a component automaton come from SrcFunBase.v *)", ""]
    global LAST_DECLS
    LAST_DECLS = decls
    for dn in sorted(decls):
        head.append(decls[dn])
        head.append("")
    body = []
    for n in order:
        body.append("(* %s *)" % status.get(n, "translated").replace("(*", "( *").replace("*)", "* )"))
        body.append(texts[n])
        body.append("")
    report = {"restructured": restruct, "overflow_checks": ovf, "debug_assertions": dbg,
              "functions": {n: {"status": status[n].split(":")[0], "reason": status[n].partition(": ")[2], "type": types[n],
                                "target": n in pref} for n in order},
              "translated": [n for n in order if status[n].startswith("translated")],
              "fallback_to_pinned": [n for n in order if status[n].startswith("fallback")]}
    return "\n".join(head + body), report, order, texts


def main():
    args = [a for a in sys.argv[1:] if not a.startswith("--")]
    repo, out = args[0], args[1]
    root = os.path.dirname(HERE)
    pin = "--pin" in sys.argv
    use_pinned = {}
    for a in sys.argv[1:]:
        if a.startswith("--pinned-for="):
            for it in a.split("=", 1)[1].split(","):
                if it:
                    use_pinned[it] = "tie lemma not proved for the current translation"
    txt, report, order, texts = generate(repo, root, use_pinned, pin)
    if pin:
        if report["fallback_to_pinned"]:
            sys.stderr.write("rustfun --pin: not translated: %s\n" % ", ".join(
                "%s (%s)" % (n, report["functions"][n]["reason"]) for n in report["fallback_to_pinned"]))
            sys.exit(1)
        open(PINNED_PATH, "w").write("(* pinned translation of the pinned revision of /repo (tools/rustfun.py --pin); fragments per function,\n"
                                     "   used as fallback text when a function cannot be located or translated *)\n\n" +
                                     "\n".join("(* STRUCT %s = %s *)" % kv for kv in sorted(LAST_SIGS.items())) + "\n\n" +
                                     "\n\n".join([LAST_DECLS[dn] for dn in sorted(LAST_DECLS)] + [texts[n] for n in order]) + "\n")
    os.makedirs(os.path.dirname(out), exist_ok=True)
    if not os.path.exists(out) or open(out).read() != txt:
        open(out, "w").write(txt)
    json.dump(report, open(os.path.join(os.path.dirname(out), "srcfuns_report.json"), "w"), indent=1)
    if report["fallback_to_pinned"]:
        print("rustfun: pinned translation used for: " + ", ".join(
            "%s (%s)" % (n, report["functions"][n]["reason"]) for n in report["fallback_to_pinned"]))


if __name__ == "__main__":
    main()
