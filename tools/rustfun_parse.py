#!/usr/bin/env python3
"""rustfun_parse.py — tokenizer, item index and statement/expression parser for the pure subset of
Rust that tools/rustfun.py translates to Gallina.  Generalises the parser of tools/rusthash.py."""
import re


class Untranslatable(Exception):
    pass


TOK = re.compile(r"""
    (?P<ws>\s+|//[^\n]*|/\*.*?\*/)
  | (?P<attr>\#!?\[(?:[^\[\]]|\[[^\]]*\])*\])
  | (?P<str>b?"(?:\\.|[^"\\])*")
  | (?P<chr>b?'(?:\\x[0-9a-fA-F]{2}|\\u\{[0-9a-fA-F_]+\}|\\.|[^\\'])')
  | (?P<life>'[A-Za-z_][A-Za-z0-9_]*)
  | (?P<num>0x[0-9a-fA-F_]+|0b[01_]+|0o[0-7_]+|[0-9][0-9_]*)(?P<suf>u8|u16|u32|u64|usize|i32|i64|isize)?
  | (?P<id>[A-Za-z_][A-Za-z0-9_]*)
  | (?P<op>\.\.=|<<=|>>=|->|=>|::|\.\.|&&|\|\||==|!=|<=|>=|\^=|\|=|&=|\+=|-=|\*=|/=|%=|<<|>>|[(){}\[\];,.:&^|+\-*/%=<>!?@#$~])
""", re.S | re.X)


def tokenize(src):
    out, i, n = [], 0, len(src)
    while i < n:
        m = TOK.match(src, i)
        if not m:
            raise Untranslatable("cannot tokenize at: %r" % src[i:i + 30])
        i = m.end()
        if m.group("ws") or m.group("attr") or m.group("life"):
            continue
        if m.group("num"):
            s = m.group("num").replace("_", "")
            v = int(s, 16) if s.startswith("0x") else int(s[2:], 2) if s.startswith("0b") else int(s[2:], 8) if s.startswith("0o") else int(s)
            out.append(("num", (v, m.group("suf"))))
        elif m.group("id"):
            out.append(("id", m.group("id")))
        elif m.group("str"):
            out.append(("str", m.group("str")))
        elif m.group("chr"):
            c = m.group("chr")
            body = c[c.index("'") + 1:-1]
            if body.startswith("\\u{"):
                v = int(body[3:-1].replace("_", ""), 16)
            elif body.startswith("\\x"):
                v = int(body[2:], 16)
            elif body.startswith("\\"):
                v = {"n": 10, "r": 13, "t": 9, "0": 0, "\\": 92, "'": 39, '"': 34}.get(body[1])
            else:
                v = ord(body)
            out.append(("num", (v, "u8" if c.startswith("b") else None)) if c.startswith("b") else ("chr", v))
        else:
            out.append(("op", m.group("op")))
    return out


OPEN = {"(": ")", "[": "]", "{": "}"}


def match_close(toks, i):
    """toks[i] is an opening bracket; returns the index of its closing bracket."""
    depth = 0
    j = i
    while j < len(toks):
        k, v = toks[j]
        if k == "op" and v in OPEN:
            depth += 1
        elif k == "op" and v in (")", "]", "}"):
            depth -= 1
            if depth == 0:
                return j
        j += 1
    raise Untranslatable("unbalanced brackets")


def skip_generics(t, p):
    """t[p] == '<' : index just after the matching '>' ('>>' closes two)."""
    depth = 0
    while p < len(t):
        if t[p] == ("op", "<"):
            depth += 1
        elif t[p] == ("op", ">"):
            depth -= 1
        elif t[p] == ("op", ">>"):
            depth -= 2
        elif t[p] == ("op", "->"):
            pass
        p += 1
        if depth <= 0:
            return p
    raise Untranslatable("generics")


def generic_names(toks):
    """names of the type parameters in `<A: Bound, B>` (lifetimes are already dropped by the tokenizer)"""
    out, depth, expect = [], 0, True
    for x in toks:
        if x == ("op", "<"):
            depth += 1
            if depth == 1:
                expect = True
            continue
        if x in (("op", ">"), ("op", ">>")):
            depth -= 1 if x[1] == ">" else 2
            continue
        if depth == 1 and x == ("op", ","):
            expect = True
            continue
        if depth == 1 and expect and x[0] == "id":
            out.append(x[1])
            expect = False
    return out


def split_commas(toks):
    parts, depth, cur = [], 0, []
    for x in toks:
        if x[0] == "op" and x[1] in ("(", "[", "<", "{"):
            depth += 1
        elif x[0] == "op" and x[1] in (")", "]", ">", "}"):
            depth -= 1
        elif x == ("op", ">>"):
            depth -= 2
        if depth == 0 and x == ("op", ","):
            parts.append(cur)
            cur = []
        else:
            cur.append(x)
    if cur:
        parts.append(cur)
    return [[y for y in p if y != ("id", "pub")] for p in parts]


class FnItem:
    def __init__(self, name, owner, params, ret, body):
        self.name, self.owner, self.params, self.ret, self.body = name, owner, params, ret, body
        self.generics = []
        self.fn_gen = []


class FileIndex:
    """Items of one source file: newtype structs, record structs, consts, type aliases, free fns, impl fns."""

    def __init__(self, src):
        self.toks = tokenize(src)
        self.newtypes = {}     # name -> inner type name
        self.records = {}      # name -> {field: type tokens}
        self.consts = {}       # name -> (type tokens, expr tokens)
        self.aliases = {}      # name -> type tokens
        self.fns = {}          # (owner or None, name) -> FnItem   (first definition wins)
        self.tuples = {}       # tuple struct name -> (generic names, [field type tokens])
        self.enums = {}        # enum name -> (generic names, [(variant, [field type tokens])])
        self.generics = {}     # struct/enum name -> generic parameter names
        self.cur_generics = []
        self._scan(0, len(self.toks), None)

    def _scan(self, i, end, owner):
        t = self.toks
        while i < end:
            k, v = t[i]
            if k == "id" and v == "mod" and i + 2 < end and t[i + 2] == ("op", "{"):
                i = match_close(t, i + 2) + 1          # nested modules (tests) are skipped
                continue
            if k == "id" and v == "struct" and owner is None:
                name = t[i + 1][1]
                j = i + 2
                gens = []
                if t[j] == ("op", "<"):
                    j2 = skip_generics(t, j)
                    gens = generic_names(t[j:j2])
                    j = j2
                self.generics[name] = gens
                if t[j] == ("op", "("):
                    c = match_close(t, j)
                    inner = [x for x in t[j + 1:c] if x != ("id", "pub")]
                    if len(inner) == 1 and inner[0][0] == "id" and inner[0][1] not in gens:
                        self.newtypes[name] = inner[0][1]
                    self.tuples[name] = (gens, split_commas(inner))
                    i = c + 1
                    continue
                if t[j] == ("op", ";"):
                    self.records[name] = {}             # unit struct
                    i = j + 1
                    continue
                if t[j] == ("op", "{"):
                    c = match_close(t, j)
                    fields, p = {}, j + 1
                    while p < c:
                        if t[p] == ("id", "pub"):
                            p += 1
                            if t[p] == ("op", "("):
                                p = match_close(t, p) + 1
                            continue
                        if t[p][0] == "id" and t[p + 1] == ("op", ":"):
                            q, depth = p + 2, 0
                            while q < c and not (depth == 0 and t[q] == ("op", ",")):
                                if t[q] in (("op", "<"), ("op", "("), ("op", "[")):
                                    depth += 1
                                elif t[q] in (("op", ">"), ("op", ")"), ("op", "]")):
                                    depth -= 1
                                q += 1
                            fields[t[p][1]] = t[p + 2:q]
                            p = q + 1
                        else:
                            p += 1
                    self.records[name] = fields
                    i = c + 1
                    continue
            if k == "id" and v == "enum" and owner is None and t[i + 1][0] == "id":
                name = t[i + 1][1]
                j = i + 2
                gens = []
                if t[j] == ("op", "<"):
                    j2 = skip_generics(t, j)
                    gens = generic_names(t[j:j2])
                    j = j2
                if t[j] == ("op", "{"):
                    c = match_close(t, j)
                    variants = []
                    for part in split_commas(t[j + 1:c]):
                        if not part or part[0][0] != "id":
                            continue
                        if len(part) == 1:
                            variants.append((part[0][1], []))
                        elif part[1] == ("op", "("):
                            variants.append((part[0][1], split_commas(part[2:-1])))
                        else:
                            variants.append((part[0][1], None))       # struct-like variant: outside the subset
                    self.enums[name] = (gens, variants)
                    self.generics[name] = gens
                    i = c + 1
                    continue
            if k == "id" and v == "type" and owner is None and t[i + 1][0] == "id" and t[i + 2] == ("op", "="):
                j = i + 3
                while t[j] != ("op", ";"):
                    j += 1
                self.aliases[t[i + 1][1]] = t[i + 3:j]
                i = j + 1
                continue
            if k == "id" and v == "const" and t[i + 1][0] == "id" and t[i + 2] == ("op", ":"):
                j = i + 3
                while t[j] != ("op", "="):
                    j += 1
                e = j + 1
                while t[e] != ("op", ";"):
                    if t[e][0] == "op" and t[e][1] in OPEN:
                        e = match_close(t, e)
                    e += 1
                self.consts.setdefault(t[i + 1][1], (t[i + 3:j], t[j + 1:e]))
                i = e + 1
                continue
            if k == "id" and v == "impl" and owner is None:
                j = i + 1
                hdr = []
                while t[j] != ("op", "{"):
                    hdr.append(t[j])
                    j += 1
                c = match_close(t, j)
                p = 0
                gens = []
                if hdr and hdr[0] == ("op", "<"):
                    p = skip_generics(hdr, 0)
                    gens = generic_names(hdr[:p])
                if ("id", "for") in hdr:
                    # trait impls: only the traits whose methods are translated
                    f = hdr.index(("id", "for"))
                    trait = [x[1] for x in hdr[p:f] if x[0] == "id"]
                    if not trait or trait[-1] not in ("Automaton", "Ord", "PartialOrd"):
                        i = c + 1
                        continue
                    rest = hdr[f + 1:]
                    if rest and rest[0] == ("op", "&"):
                        tyname = "Ref"                  # impl<T: Automaton> Automaton for &T
                    else:
                        tyname = rest[0][1] if rest and rest[0][0] == "id" else None
                else:
                    tyname = hdr[p][1] if p < len(hdr) and hdr[p][0] == "id" else None
                old = self.cur_generics
                self.cur_generics = gens
                self._scan(j + 1, c, tyname)
                self.cur_generics = old
                i = c + 1
                continue
            if k == "id" and v == "fn" and t[i + 1][0] == "id":
                name = t[i + 1][1]
                j = i + 2
                fn_gen = []
                if t[j] == ("op", "<"):
                    j2 = skip_generics(t, j)
                    fn_gen = t[j:j2]
                    j = j2
                if t[j] != ("op", "("):
                    i += 1
                    continue
                pc = match_close(t, j)
                params = t[j + 1:pc]
                q = pc + 1
                ret = []
                while t[q] not in (("op", "{"), ("op", ";")):
                    ret.append(t[q])
                    q += 1
                if t[q] == ("op", ";"):
                    i = q + 1
                    continue
                bc = match_close(t, q)
                if ret and ret[0] == ("op", "->"):
                    ret = ret[1:]
                if ("id", "where") in ret:
                    ret = ret[:ret.index(("id", "where"))]
                it = FnItem(name, owner, params, ret, t[q + 1:bc])
                it.generics = list(self.cur_generics)
                it.fn_gen = fn_gen
                self.fns.setdefault((owner, name), it)
                i = bc + 1
                continue
            if k == "op" and v == "{":
                i = match_close(t, i) + 1
                continue
            i += 1


# ---------------------------------------------------------------- types
INT_BITS = {"u8": 8, "u16": 16, "u32": 32, "u64": 64, "usize": 64}


def parse_type(toks, idx):
    """Type tokens -> 'u8'.. | 'bool' | ('opt', T) | ('nt', Name, inner) | ('slice',) | ('node',) | ('named', X)."""
    toks = [x for x in toks if x not in (("op", "&"), ("id", "mut"))]
    if not toks:
        return ("unit",)
    k, v = toks[0]
    if k == "op" and v == "[":
        return ("slice",)
    if k == "op" and v == "(" and len(toks) == 2:
        return ("unit",)
    if k != "id":
        raise Untranslatable("type " + " ".join(str(x[1]) for x in toks))
    if v in INT_BITS or v == "bool":
        return v
    if v == "Option":
        return ("opt", parse_type(toks[2:-1], idx))
    if v == "Node":
        return ("node",)
    if v == "Self":
        return ("self",)
    for ix in idx:
        if v in ix.aliases:
            return parse_type(ix.aliases[v], idx)
    for ix in idx:
        if v in ix.newtypes:
            return ("nt", v, ix.newtypes[v])
    return ("named", v)


# ---------------------------------------------------------------- expression / statement parser
BIN_PREC = [["||"], ["&&"], ["==", "!=", "<", ">", "<=", ">="], ["|"], ["^"], ["&"], ["<<", ">>"], ["+", "-"], ["*", "/", "%"]]
COMPOUND = {"^=": "^", "|=": "|", "&=": "&", "+=": "+", "-=": "-", "*=": "*", "/=": "/", "%=": "%", ">>=": ">>", "<<=": "<<"}


class P:
    def __init__(self, toks):
        self.t, self.i = toks, 0

    def peek(self, k=0):
        return self.t[self.i + k] if self.i + k < len(self.t) else ("eof", None)

    def next(self):
        x = self.peek()
        self.i += 1
        return x

    def accept(self, kind, val=None):
        k, v = self.peek()
        if k == kind and (val is None or v == val):
            self.i += 1
            return True
        return False

    def expect(self, kind, val=None):
        k, v = self.next()
        if k != kind or (val is not None and v != val):
            raise Untranslatable("expected %s %s, found %s %s" % (kind, val or "", k, v))
        return v

    # ---- types inside expressions (casts, let annotations): collect tokens of a simple type
    def type_tokens(self):
        out = []
        while self.peek() in (("op", "&"), ("id", "mut")):
            out.append(self.next())
        out.append(("id", self.expect("id")))
        while self.peek() == ("op", "::"):
            self.next()
            out = [("id", self.expect("id"))]
        if self.peek() == ("op", "<"):
            depth = 0
            while True:
                x = self.next()
                out.append(x)
                if x == ("op", "<"):
                    depth += 1
                elif x == ("op", ">"):
                    depth -= 1
                    if depth == 0:
                        break
                elif x == ("op", ">>"):
                    depth -= 2
                    if depth <= 0:
                        break
                elif x[0] == "eof":
                    raise Untranslatable("type")
        return out

    # ---- blocks and statements
    def block(self):
        """after '{' : returns (stmts, tail or None) and consumes '}'"""
        stmts, tail = [], None
        while not self.accept("op", "}"):
            if self.peek()[0] == "eof":
                raise Untranslatable("unterminated block")
            if self.accept("op", ";"):
                continue
            start = self.i
            try:
                r = self.statement()
            except Untranslatable as ex:
                # a statement outside the subset only matters if the translation reaches it
                self.i = start
                depth = 0
                while True:
                    x = self.peek()
                    if x[0] == "eof":
                        break
                    if x[0] == "op" and x[1] in OPEN:
                        depth += 1
                    elif x[0] == "op" and x[1] in (")", "]", "}"):
                        if depth == 0:
                            break
                        depth -= 1
                    self.i += 1
                    if depth == 0 and x == ("op", ";"):
                        break
                stmts.append(("unparsed", str(ex)))
                continue
            if r[0] == "tail":
                tail = r[1]
            else:
                stmts.append(r)
        return stmts, tail

    def statement(self):
        if True:
            k, v = self.peek()
            if k == "id" and v == "let":
                self.next()
                if self.accept("op", "("):
                    names = []
                    while not self.accept("op", ")"):
                        self.accept("id", "mut")
                        names.append(self.expect("id"))
                        self.accept("op", ",")
                    self.expect("op", "=")
                    e = self.expr()
                    self.expect("op", ";")
                    return ("lettuple", names, e)
                mut = self.accept("id", "mut")
                name = self.expect("id")
                ty = None
                if self.accept("op", ":"):
                    ty = self.type_tokens()
                self.expect("op", "=")
                e = self.expr()
                self.expect("op", ";")
                return ("let", name, ty, e)
            if k == "id" and v == "return":
                self.next()
                e = None if self.peek() == ("op", ";") or self.peek() == ("op", "}") else self.expr()
                self.accept("op", ";")
                return ("return", e)
            if k == "id" and v == "for":
                self.next()
                pat = self.for_pattern()
                self.expect("id", "in")
                it = self.expr(nostruct=True, norange=True)
                if self.accept("op", ".."):
                    hi = self.expr(nostruct=True, norange=True)
                    it = ("range", it, hi)
                self.expect("op", "{")
                blk = self.block()
                return ("for", pat, it, blk)
            if k == "id" and v == "while" and self.peek(1) != ("id", "let"):
                self.next()
                c = self.expr(nostruct=True)
                self.expect("op", "{")
                blk = self.block()
                return ("while", c, blk)
            if k == "id" and v in ("while", "loop"):
                raise Untranslatable("loop")
            e = self.expr(stmt=True)
            if self.peek()[0] == "op" and (self.peek()[1] == "=" or self.peek()[1] in COMPOUND):
                op = self.next()[1]
                r = self.expr()
                self.expect("op", ";")
                return ("assign", e, COMPOUND.get(op), r)
            if self.accept("op", ";"):
                return ("expr", e)
            if self.peek() == ("op", "}"):
                return ("tail", e)
            if e[0] in ("if", "iflet", "match", "block"):
                return ("expr", e)       # block-like expression statement without ';'
            raise Untranslatable("statement at %s" % (self.peek(),))

    def for_pattern(self):
        """i | _ | &b | (i, &b) | (i, b)  ->  list of names (None for _)"""
        def one():
            self.accept("op", "&")
            self.accept("id", "mut")
            n = self.expect("id")
            return None if n == "_" else n
        if self.accept("op", "("):
            names = []
            while not self.accept("op", ")"):
                names.append(one())
                self.accept("op", ",")
            return names
        return [one()]

    # ---- expressions
    def expr(self, level=0, stmt=False, nostruct=False, norange=False):
        if level == len(BIN_PREC):
            return self.cast(stmt, nostruct)
        l = self.expr(level + 1, stmt, nostruct)
        if stmt and l[0] in ("if", "iflet", "match", "block") and level == 0:
            return l
        while self.peek()[0] == "op" and self.peek()[1] in BIN_PREC[level]:
            op = self.next()[1]
            r = self.expr(level + 1, False, nostruct)
            l = ("bin", op, l, r)
        return l

    def cast(self, stmt=False, nostruct=False):
        e = self.unary(nostruct)
        while self.accept("id", "as"):
            e = ("cast", e, self.type_tokens())
        return e

    def unary(self, nostruct=False):
        if self.accept("op", "&"):
            self.accept("id", "mut")
            return self.unary(nostruct)
        if self.accept("op", "*"):
            return self.unary(nostruct)
        if self.accept("op", "!"):
            return ("un", "!", self.unary(nostruct))
        if self.accept("op", "-"):
            raise Untranslatable("unary minus")
        if self.peek() == ("op", "||"):
            self.next()
            return ("closure", [], self.expr())
        if self.peek() == ("op", "|"):
            self.next()
            names = []
            while not self.accept("op", "|"):
                self.accept("op", "&")
                self.accept("id", "mut")
                names.append(self.expect("id"))
                if self.accept("op", ":"):
                    self.type_tokens()
                self.accept("op", ",")
            return ("closure", names, self.expr())
        if self.accept("id", "move"):
            return self.unary(nostruct)
        return self.postfix(nostruct)

    def args(self):
        a = []
        if self.accept("op", ")"):
            return a
        while True:
            a.append(self.expr())
            if self.accept("op", ")"):
                return a
            self.expect("op", ",")
            if self.accept("op", ")"):
                return a

    def pattern(self):
        """match-arm / if-let pattern: list of alternatives, each ('lit', v) ('range', a, b) ('wild',) ('some', name|None) ('none',) ('bind', name)"""
        alts = []
        while True:
            k, v = self.next()
            if k == "num":
                if self.accept("op", "..="):
                    alts.append(("range", v[0], self.expect("num")[0]))
                elif self.accept("op", ".."):
                    alts.append(("range", v[0], self.expect("num")[0] - 1))
                else:
                    alts.append(("lit", v[0]))
            elif k == "id" and v == "_":
                alts.append(("wild",))
            elif k == "id" and v == "Some":
                self.expect("op", "(")
                self.accept("op", "&")
                self.accept("id", "ref")
                self.accept("id", "mut")
                n = self.expect("id")
                self.expect("op", ")")
                alts.append(("some", None if n == "_" else n))
            elif k == "id" and v == "None":
                alts.append(("none",))
            elif k == "id" and v in ("true", "false"):
                alts.append(("lit", 1 if v == "true" else 0))
            elif k == "id":
                path = [v]
                while self.accept("op", "::"):
                    path.append(self.expect("id"))
                if self.accept("op", "("):
                    names = []
                    while not self.accept("op", ")"):
                        self.accept("op", "&")
                        self.accept("id", "ref")
                        self.accept("id", "mut")
                        n = self.expect("id")
                        names.append(None if n == "_" else n)
                        self.accept("op", ",")
                    alts.append(("ctor", path, names))
                elif len(path) == 1:
                    alts.append(("bind", v))
                else:
                    alts.append(("ctor", path, []))
            else:
                raise Untranslatable("pattern %s %s" % (k, v))
            if not self.accept("op", "|"):
                return alts

    def postfix(self, nostruct=False):
        k, v = self.next()
        if k == "num":
            e = ("num", v[0], v[1])
        elif k == "str":
            e = ("str", v)
        elif k == "op" and v == "(":
            if self.accept("op", ")"):
                e = ("unit",)
            else:
                e = self.expr()
                if self.accept("op", "..="):
                    hi = self.expr()
                    self.expect("op", ")")
                    e = ("range", e, ("bin", "+", ("paren", hi), ("num", 1, None)))
                elif self.accept("op", ".."):
                    hi = self.expr()
                    self.expect("op", ")")
                    e = ("range", e, hi)
                elif self.peek() == ("op", ","):
                    items = [e]
                    while self.accept("op", ","):
                        if self.peek() == ("op", ")"):
                            break
                        items.append(self.expr())
                    self.expect("op", ")")
                    e = ("tuple", items)
                else:
                    self.expect("op", ")")
                    e = ("paren", e)
        elif k == "op" and v == "{":
            s, t = self.block()
            e = ("block", s, t)
        elif k == "op" and v == "[":
            if self.accept("op", "]"):
                e = ("array", [])
            else:
                first = self.expr()
                if self.accept("op", ";"):
                    n = self.expr()
                    self.expect("op", "]")
                    e = ("arrayrep", first, n)
                else:
                    items = [first]
                    while self.accept("op", ","):
                        if self.peek() == ("op", "]"):
                            break
                        items.append(self.expr())
                    self.expect("op", "]")
                    e = ("array", items)
        elif k == "id" and v == "if":
            e = self.if_expr()
        elif k == "id" and v == "match":
            scrut = self.expr(nostruct=True)
            self.expect("op", "{")
            arms = []
            while not self.accept("op", "}"):
                pats = self.pattern()
                guard = None
                if self.accept("id", "if"):
                    guard = self.expr()
                self.expect("op", "=>")
                body = self.expr(stmt=True)
                self.accept("op", ",")
                arms.append((pats, guard, body))
            e = ("match", scrut, arms)
        elif k == "id" and v in ("true", "false"):
            e = ("bool", v == "true")
        elif k == "id":
            path = [v]
            while self.peek() == ("op", "::"):
                self.next()
                if self.peek() == ("op", "<"):
                    raise Untranslatable("turbofish")
                path.append(self.expect("id"))
            if self.peek() == ("op", "!") and self.peek(1)[0] == "op" and self.peek(1)[1] in ("(", "[", "{"):
                self.next()
                o = self.next()[1]
                start = self.i
                depth = 1
                while depth:
                    x = self.next()
                    if x[0] == "op" and x[1] in OPEN:
                        depth += 1
                    elif x[0] == "op" and x[1] in (")", "]", "}"):
                        depth -= 1
                    elif x[0] == "eof":
                        raise Untranslatable("macro")
                e = ("macro", path[-1], self.t[start:self.i - 1])
            elif self.accept("op", "("):
                e = ("call", path, self.args())
            elif (not nostruct and self.peek() == ("op", "{") and path[-1][:1].isupper() and
                  (self.peek(1) == ("op", "}") or (self.peek(1)[0] == "id" and self.peek(2) in (("op", ":"), ("op", ","), ("op", "}"))))):
                self.next()
                fields = []
                while not self.accept("op", "}"):
                    fn_ = self.expect("id")
                    if self.accept("op", ":"):
                        fields.append((fn_, self.expr()))
                    else:
                        fields.append((fn_, ("path", [fn_])))
                    self.accept("op", ",")
                e = ("structlit", path, fields)
            else:
                e = ("path", path)
        else:
            raise Untranslatable("unexpected token %s %s" % (k, v))
        while True:
            if self.accept("op", "."):
                kk, name = self.next()
                if kk == "num":
                    e = ("field", e, str(name[0]))
                elif kk == "id":
                    if self.accept("op", "("):
                        e = ("method", name, e, self.args())
                    else:
                        e = ("field", e, name)
                else:
                    raise Untranslatable("field")
            elif self.peek() == ("op", "["):
                self.next()
                if self.accept("op", ".."):
                    hi = None if self.peek() == ("op", "]") else self.expr()
                    self.expect("op", "]")
                    e = ("slice", e, None, hi)
                    continue
                ix = self.expr()
                if self.accept("op", ".."):
                    hi = None if self.peek() == ("op", "]") else self.expr()
                    self.expect("op", "]")
                    e = ("slice", e, ix, hi)
                    continue
                if self.peek() == ("op", "..="):
                    raise Untranslatable("inclusive slice range")
                self.expect("op", "]")
                e = ("index", e, ix)
            elif self.peek() == ("op", "?"):
                self.next()
                e = ("try", e)
            else:
                return e

    def if_expr(self):
        if self.accept("id", "let"):
            pats = self.pattern()
            self.expect("op", "=")
            scrut = self.expr(nostruct=True)
            self.expect("op", "{")
            a = self.block()
            b = None
            if self.accept("id", "else"):
                if self.accept("id", "if"):
                    b = ([], self.if_expr())
                else:
                    self.expect("op", "{")
                    b = self.block()
            return ("iflet", pats, scrut, a, b)
        c = self.expr(nostruct=True)
        self.expect("op", "{")
        a = self.block()
        b = None
        if self.accept("id", "else"):
            if self.accept("id", "if"):
                b = ([], self.if_expr())
            else:
                self.expect("op", "{")
                b = self.block()
        return ("if", c, a, b)


def parse_params(toks):
    """-> list of (name, type tokens) ; self forms give ('self', kind) with kind in ref/mut/val"""
    out, i = [], 0
    parts, depth, cur = [], 0, []
    for x in toks:
        if x[0] == "op" and x[1] in ("(", "[", "<"):
            depth += 1
        elif x[0] == "op" and x[1] in (")", "]", ">"):
            depth -= 1
        if depth == 0 and x == ("op", ","):
            parts.append(cur)
            cur = []
        else:
            cur.append(x)
    if cur:
        parts.append(cur)
    for p in parts:
        names = [x for x in p]
        if ("id", "self") in names and ("op", ":") not in names:
            kind = "mut" if (("op", "&") in names and ("id", "mut") in names) else "ref" if ("op", "&") in names else "val"
            out.append(("self", kind))
            continue
        q = 0
        while p[q] in (("id", "mut"), ("op", "&")):
            q += 1
        name = p[q][1]
        if p[q + 1] != ("op", ":"):
            raise Untranslatable("parameter pattern")
        out.append((name, p[q + 2:]))
    return out
