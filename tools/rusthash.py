#!/usr/bin/env python3
"""rusthash.py — translator for ONE function of the source: `Registry::hash` (src/raw/registry.rs),
the function that chooses the node-cache bucket.  No property constrains which function it is, so
the registry model does not fix one: this module re-translates the body found in the current
source into Gallina on every run.

Accepted subset of Rust (anything else raises Untranslatable, which breaks the tie by name):

  fn hash(&self, node: &BuilderNode) -> usize {
      const NAME: u64 = <literal>;                       (any number)
      [#[attr]] fn f(a: u64, b: u64, ...) -> u64 { <expr> }   (any number, non-recursive)
      let mut h [: u64] = <expr>;                         (one or more accumulators)
      h = <expr>;   h ^= <expr>;  (also |= &= += -= *= >>= <<=)
      for t in &node.trans { <assignments> }              (also node.trans.iter())
      <final expr>                                        (must be  X % self.table_size  up to casts)
  }

expressions: integer literals, names, ( ), `as <int type>` (ignored: everything is a u64 on a
64-bit target), unary & and * (ignored), binary  * % + - << >> & ^ |  with Rust's precedence,
method calls .wrapping_mul .wrapping_add .wrapping_sub .rotate_left .rotate_right .wrapping_shl
.wrapping_shr .value() .len(), calls of the local functions, and the paths node.is_final,
node.final_output, node.trans.len(), t.inp, t.out, t.addr, self.table_size.

Semantics emitted: all arithmetic is modulo 2^64 (`+`, `-`, `*`, `<<` wrap; a plain `+`/`*`
that overflows would panic in the harness build, which has overflow checks on, and show up as a
difference).  The result is the function WITHOUT the final `% self.table_size`:

  Definition src_hash_raw (is_final fout ntrans : N) (trans : list (N * N * N)) : N
"""
import re


class Untranslatable(Exception):
    pass


TOK = re.compile(r"""
    (?P<ws>\s+|//[^\n]*|/\*.*?\*/)
  | (?P<attr>\#\[[^\]]*\])
  | (?P<num>0x[0-9a-fA-F_]+|0b[01_]+|[0-9][0-9_]*)(?P<suf>u8|u16|u32|u64|usize|i64)?
  | (?P<id>[A-Za-z_][A-Za-z0-9_]*)
  | (?P<op>->|<<=|>>=|\^=|\|=|&=|\+=|-=|\*=|<<|>>|[(){};,.:&^|+\-*%=<>])
""", re.S | re.X)


def tokenize(src):
    out, i = [], 0
    while i < len(src):
        m = TOK.match(src, i)
        if not m:
            raise Untranslatable("cannot tokenize at: %r" % src[i:i + 30])
        i = m.end()
        if m.group("ws") or m.group("attr"):
            continue
        if m.group("num"):
            s = m.group("num").replace("_", "")
            v = int(s, 16) if s.startswith("0x") else int(s[2:], 2) if s.startswith("0b") else int(s)
            out.append(("num", v))
        elif m.group("id"):
            out.append(("id", m.group("id")))
        else:
            out.append(("op", m.group("op")))
    return out


INT_TYPES = {"u8", "u16", "u32", "u64", "usize", "i64"}
BIN_PREC = [["|"], ["^"], ["&"], ["<<", ">>"], ["+", "-"], ["*", "%"]]   # low -> high


class P:
    def __init__(self, toks):
        self.t, self.i = toks, 0

    def peek(self, k=0):
        return self.t[self.i + k] if self.i + k < len(self.t) else ("eof", None)

    def next(self):
        x = self.peek()
        self.i += 1
        return x

    def accept(self, kind, val=None):
        k, v = self.peek()
        if k == kind and (val is None or v == val):
            self.i += 1
            return True
        return False

    def expect(self, kind, val=None):
        k, v = self.next()
        if k != kind or (val is not None and v != val):
            raise Untranslatable("expected %s %s, found %s %s" % (kind, val, k, v))
        return v

    # ---- expressions ----
    def expr(self, level=0):
        if level == len(BIN_PREC):
            return self.cast()
        l = self.expr(level + 1)
        while self.peek()[0] == "op" and self.peek()[1] in BIN_PREC[level] and self.peek(1) != ("op", "="):
            op = self.next()[1]
            r = self.expr(level + 1)
            l = ("bin", op, l, r)
        return l

    def cast(self):
        e = self.unary()
        while self.accept("id", "as"):
            ty = self.expect("id")
            if ty not in INT_TYPES:
                raise Untranslatable("cast to " + ty)
        return e

    def unary(self):
        if self.accept("op", "&") or self.accept("op", "*"):
            return self.unary()
        return self.postfix()

    def postfix(self):
        k, v = self.next()
        if k == "num":
            e = ("num", v)
        elif k == "op" and v == "(":
            e = self.expr()
            self.expect("op", ")")
        elif k == "id":
            if self.accept("op", "("):
                args = []
                if not self.accept("op", ")"):
                    while True:
                        args.append(self.expr())
                        if self.accept("op", ")"):
                            break
                        self.expect("op", ",")
                e = ("call", v, args)
            else:
                e = ("path", [v])
        else:
            raise Untranslatable("unexpected token %s %s" % (k, v))
        while self.accept("op", "."):
            name = self.expect("id")
            if self.accept("op", "("):
                args = []
                if not self.accept("op", ")"):
                    while True:
                        args.append(self.expr())
                        if self.accept("op", ")"):
                            break
                        self.expect("op", ",")
                e = ("method", name, e, args)
            elif e[0] == "path":
                e = ("path", e[1] + [name])
            else:
                raise Untranslatable("field access on a non-path")
        return e


W = "18446744073709551616"   # 2^64


def wrap(s):
    return "((%s) mod %s)" % (s, W)


PATHS = {
    ("node", "is_final"): "is_final", ("node", "final_output"): "fout",
    ("t", "inp"): "inp", ("t", "out"): "out", ("t", "addr"): "addr",
}


def emit(e, env, funs):
    k = e[0]
    if k == "num":
        if e[1] >= 2 ** 64:
            raise Untranslatable("literal does not fit in u64")
        return str(e[1])
    if k == "path":
        p = tuple(e[1])
        if len(p) == 1 and p[0] in env:
            return env[p[0]]
        if p in PATHS:
            return PATHS[p]
        raise Untranslatable("unknown name " + ".".join(p))
    if k == "bin":
        a, b = emit(e[2], env, funs), emit(e[3], env, funs)
        op = e[1]
        if op == "^":
            return "(N.lxor %s %s)" % (a, b)
        if op == "|":
            return "(N.lor %s %s)" % (a, b)
        if op == "&":
            return "(N.land %s %s)" % (a, b)
        if op == ">>":
            return "(N.shiftr %s %s)" % (a, b)
        if op == "<<":
            return wrap("N.shiftl %s %s" % (a, b))
        if op == "+":
            return wrap("%s + %s" % (a, b))
        if op == "*":
            return wrap("%s * %s" % (a, b))
        if op == "-":
            return wrap("%s + %s - %s" % (a, W, b))
        if op == "%":
            return "(%s mod %s)" % (a, b)
    if k == "method":
        name, recv, args = e[1], e[2], e[3]
        if name == "value" and not args:
            return emit(recv, env, funs)
        if name == "len" and not args and recv == ("path", ["node", "trans"]):
            return "ntrans"
        r = emit(recv, env, funs)
        if len(args) == 1:
            a = emit(args[0], env, funs)
            if name == "wrapping_mul":
                return wrap("%s * %s" % (r, a))
            if name == "wrapping_add":
                return wrap("%s + %s" % (r, a))
            if name == "wrapping_sub":
                return wrap("%s + %s - %s" % (r, W, a))
            if name in ("rotate_left", "rotate_right", "wrapping_shl", "wrapping_shr"):
                if args[0][0] != "num" or not (0 <= args[0][1] < 64):
                    raise Untranslatable(name + " by a non-literal or out-of-range amount")
                n = args[0][1]
                if name == "wrapping_shl":
                    return wrap("N.shiftl %s %d" % (r, n))
                if name == "wrapping_shr":
                    return "(N.shiftr %s %d)" % (r, n)
                if n == 0:
                    return r
                l = n if name == "rotate_left" else 64 - n
                return "(N.lor %s (N.shiftr %s %d))" % (wrap("N.shiftl %s %d" % (r, l)), r, 64 - l)
        raise Untranslatable("method ." + name)
    if k == "call":
        if e[1] not in funs or len(e[2]) != funs[e[1]]:
            raise Untranslatable("call of unknown function " + e[1])
        return "(src_hash_fn_%s %s)" % (e[1], " ".join(emit(a, env, funs) for a in e[2]))
    raise Untranslatable("expression " + repr(e))


COMPOUND = {"^=": "^", "|=": "|", "&=": "&", "+=": "+", "-=": "-", "*=": "*", ">>=": ">>", "<<=": "<<"}


def translate(src):
    """src: text of registry.rs. Returns a list of Coq vernacular lines."""
    m = re.search(r"fn hash\s*\(\s*&self\s*,\s*node\s*:\s*&BuilderNode\s*\)\s*->\s*usize\s*\{", src)
    if not m:
        raise Untranslatable("fn hash(&self, node: &BuilderNode) -> usize not found")
    depth, j = 1, m.end()
    while depth and j < len(src):
        depth += {"{": 1, "}": -1}.get(src[j], 0)
        j += 1
    p = P(tokenize(src[m.end():j - 1]))
    out = []
    consts, funs = {}, {}
    accs = []          # accumulator variables in order of declaration
    stmts = []         # ("set", var, exprstring) | ("loop", [(var, exprstring)...])

    def env_now():
        e = dict(consts)
        for a in accs:
            e[a] = a
        return e

    def assignment(env):
        var = p.expect("id")
        if var not in accs:
            raise Untranslatable("assignment to undeclared " + var)
        k, op = p.next()
        rhs = p.expr()
        p.expect("op", ";")
        if op == "=":
            return (var, emit(rhs, env, funs))
        if op in COMPOUND:
            return (var, emit(("bin", COMPOUND[op], ("path", [var]), rhs), env, funs))
        raise Untranslatable("statement operator " + str(op))

    final = None
    while p.peek()[0] != "eof":
        k, v = p.peek()
        if k == "id" and v == "const":
            p.next()
            name = p.expect("id")
            p.expect("op", ":")
            p.expect("id")
            p.expect("op", "=")
            val = p.expr()
            p.expect("op", ";")
            out.append("Definition src_hash_const_%s : N := %s." % (name, emit(val, dict(consts), funs)))
            consts[name] = "src_hash_const_" + name
        elif k == "id" and v == "fn":
            p.next()
            name = p.expect("id")
            p.expect("op", "(")
            params = []
            while not p.accept("op", ")"):
                if p.accept("id", "mut"):
                    pass
                params.append(p.expect("id"))
                p.expect("op", ":")
                p.expect("id")
                p.accept("op", ",")
            p.expect("op", "->")
            p.expect("id")
            p.expect("op", "{")
            body = p.expr()
            p.expect("op", "}")
            env = dict(consts)
            for a in params:
                env[a] = a
            out.append("Definition src_hash_fn_%s (%s : N) : N := %s." % (name, " ".join(params), emit(body, env, funs)))
            funs[name] = len(params)
        elif k == "id" and v == "let":
            p.next()
            p.accept("id", "mut")
            name = p.expect("id")
            if p.accept("op", ":"):
                p.expect("id")
            p.expect("op", "=")
            val = p.expr()
            p.expect("op", ";")
            s = emit(val, env_now(), funs)
            if name not in accs:
                accs.append(name)
            stmts.append(("set", name, s))
        elif k == "id" and v == "for":
            p.next()
            if p.expect("id") != "t":
                raise Untranslatable("loop variable must be t")
            p.expect("id", "in")
            it = p.expr()
            if it not in (("path", ["node", "trans"]), ("method", "iter", ("path", ["node", "trans"]), [])):
                raise Untranslatable("loop over something other than node.trans")
            p.expect("op", "{")
            body = []
            env = env_now()
            while not p.accept("op", "}"):
                body.append(assignment(env))
            stmts.append(("loop", body))
        elif k == "id" and v in accs and p.peek(1)[0] == "op" and (p.peek(1)[1] == "=" or p.peek(1)[1] in COMPOUND):
            a = assignment(env_now())
            stmts.append(("set", a[0], a[1]))
        else:
            final = p.expr()
            if p.peek()[0] != "eof":
                raise Untranslatable("statements after the result expression")
    if final is None:
        raise Untranslatable("no result expression")
    # the reduction to a bucket: X % self.<the field holding the number of rows> (whatever it is called;
    # a field that is NOT the number of rows shows up as cache counters differing from the model's)
    if not (final[0] == "bin" and final[1] == "%" and final[3][0] == "path" and len(final[3][1]) == 2 and final[3][1][0] == "self"):
        raise Untranslatable("the result is not of the form  X % self.<rows field>")
    if not accs:
        raise Untranslatable("no accumulator")
    tup = accs[0] if len(accs) == 1 else "(" + ", ".join(accs) + ")"
    body = []
    for s in stmts:
        if s[0] == "set":
            body.append("let %s := %s in" % (s[1], s[2]))
        else:
            inner = " ".join("let %s := %s in" % (v, e) for v, e in s[1])
            pat = "let '%s := acc in " % tup if len(accs) > 1 else ""
            accname = "acc" if len(accs) > 1 else accs[0]
            body.append("let %s%s := fold_left (fun %s (t : N * N * N) => %slet '(inp, out, addr) := t in %s %s) trans %s in" % (
                "'" if len(accs) > 1 else "", tup, accname, pat, inner, tup, tup))
    out.append("Definition src_hash_raw (is_final fout ntrans : N) (trans : list (N * N * N)) : N :=\n  " +
               "\n  ".join(body) + "\n  " + emit(final[2], env_now(), funs) + ".")
    return out


if __name__ == "__main__":
    import sys
    print("\n".join(translate(open(sys.argv[1]).read())))
